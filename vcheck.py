#!/venv/bin/python
"""CLI: vcheck.py <Cxx> [--tier quick|thorough] [--seed N] [--shards N] [--replay file]

exit 0 = property held on everything observed; 1 = VIOLATION (unlisted); 2 = inconclusive.
"""
import argparse
import os
import sys

sys.dont_write_bytecode = True
HERE = os.path.dirname(os.path.abspath(__file__))
os.chdir(HERE)
sys.path.insert(0, HERE)

from vf import runner  # noqa: E402


def main():
    ap = argparse.ArgumentParser()
    ap.add_argument("prop")
    ap.add_argument("--tier", default=os.environ.get("VERIF_TIER") or "quick", choices=["quick", "thorough"])
    ap.add_argument("--seed", type=int, default=int(os.environ.get("VERIF_SEED") or 0))
    ap.add_argument("--shards", type=int, default=None)
    ap.add_argument("--replay", default=None)
    a = ap.parse_args()
    sys.exit(runner.run_check(a.prop.upper(), a.tier, a.seed, a.shards, a.replay))


if __name__ == "__main__":
    main()

"""Runtime-monitoring framework for coxeter (see /verif/DESIGN.md)."""

"""Canonical public-observable fingerprint of a shape, enumerated by reflection.

``members(cls)`` lists what the class offers (new members are picked up automatically);
``observe(shape)`` evaluates every public observable into a canonical, comparable value;
``compare(fp_a, fp_b, L, tol)`` compares two fingerprints up to the freedoms the
statements leave open (face order, start of a face cycle, sign of zero, list vs array,
triangulation of a face) with magnitude-aware tolerances."""

import inspect
import warnings
from functools import cached_property

import numpy as np

from . import contracts

SKIP = {"plot", "to_plato_scene", "save", "data"}
DEPRECATED = {"bounding_sphere", "insphere_from_center", "circumsphere_from_center", "bounding_circle", "incircle_from_center"}
# methods that mutate by design (the operation alphabet of C03), never called by observe()
MUTATORS = {"diagonalize_inertia", "merge_faces", "sort_faces", "to_hoomd"}

# physical dimension (power of length) of observables; None = dimensionless
DIM = {
    "volume": 3, "surface_area": 2, "area": 2, "signed_area": 2, "perimeter": 1, "circumference": 1, "centroid": 1, "center": 1,
    "vertices": 1, "radius": 1, "diameter": 1, "a": 1, "b": 1, "c": 1, "mean_curvature": 1, "edge_lengths": 1, "edge_vectors": 1,
    "face_centroids": 1, "get_face_area": 2, "planar_moments_inertia": 4, "polar_moment_inertia": 4, "distance_to_surface": 1,
    "iq": 0, "tau": 0, "asphericity": 0, "eccentricity": 0, "normals": 0, "normal": 0, "num_vertices": 0, "num_faces": 0,
    "num_edges": 0, "dihedrals": 0, "is_inside": 0,
}


def members(cls):
    """(getters, setters, methods) of the public API of cls, by reflection."""
    getters, setters, methods = [], [], []
    for name in sorted(dir(cls)):
        if name.startswith("_") or name in SKIP:
            continue
        attr = inspect.getattr_static(cls, name)
        if isinstance(attr, property):
            getters.append(name)
            if attr.fset is not None:
                setters.append(name)
        elif isinstance(attr, cached_property):
            getters.append(name)
        elif callable(attr) and not isinstance(attr, (classmethod, staticmethod, type)):
            methods.append(name)
    return getters, setters, methods


def is3d(shape):
    return hasattr(type(shape), "volume")


def length_scale(shape):
    """(diameter-like size, L = size + distance of the shape from the origin)."""
    with contracts.quiet():
        if hasattr(shape, "vertices"):
            V = np.asarray(shape.vertices, float)
            size = float(np.linalg.norm(V.max(0) - V.min(0)))
            if hasattr(shape, "radius"):
                size += 2 * float(shape.radius)
            return size, size + float(np.abs(V).max())
        ax = [float(getattr(shape, n)) for n in ("radius", "a", "b", "c") if hasattr(shape, n)]
        c = np.asarray(shape.centroid, float)
        return 2 * max(ax), 2 * max(ax) + float(np.abs(c).max())


def _ball(x):
    return ("ball", type(x).__name__, float(x.radius), np.array(x.centroid, float).ravel())


def _canon_cycle(f):
    f = [int(i) for i in f]
    k = f.index(min(f))
    return tuple(f[k:] + f[:k])


def probe_points(shape, n=60):
    with contracts.quiet():
        rng = np.random.default_rng(987654321)
        if hasattr(shape, "vertices"):
            V = np.asarray(shape.vertices, float)
            lo, hi = V.min(0), V.max(0)
            pad = 0.15 * float((hi - lo).max()) + (float(shape.radius) if hasattr(shape, "radius") else 0.0)
            u = rng.random((n, 3))
            pts = (lo - pad) + u * ((hi + pad) - (lo - pad))
            if not is3d(shape):
                # in-plane points: project onto the polygon's plane
                nrm = np.asarray(shape.normal, float)
                nrm = nrm / np.linalg.norm(nrm)
                pts = pts - ((pts - V[0]) @ nrm)[:, None] * nrm
            return pts
        c = np.asarray(shape.centroid, float)
        ax = [float(getattr(shape, k)) for k in ("radius", "a", "b", "c") if hasattr(shape, k)]
        full = (ax + [ax[0]] * 3)[:3] if len(ax) != 2 else ax + [0.0]
        if hasattr(shape, "radius"):
            full = [ax[0]] * 3
        pts = c + (rng.random((n, 3)) * 2.6 - 1.3) * np.array(full)
        if not is3d(shape):
            pts[:, 2] = c[2]
        return pts


def probe_q(shape):
    size, _ = length_scale(shape)
    rng = np.random.default_rng(13579)
    q = rng.normal(size=(5, 3))
    q /= np.linalg.norm(q, axis=1)[:, None]
    mags = np.array([0.0, 0.3, 1.0, 3.0, 9.0]) / size
    return q * mags[:, None]


ANGLES = np.linspace(-3.0, 9.0, 17)


def observe(shape, light=False):
    """dict name -> canonical value | ('raises', type name).  Never raises."""
    out = {}
    cls = type(shape)
    getters, _, methods = members(cls)
    with contracts.quiet(), warnings.catch_warnings(), np.errstate(all="ignore"):
        warnings.simplefilter("ignore")
        poly3 = is3d(shape) and hasattr(shape, "faces")
        facekey = None
        if poly3:
            try:
                facekey = [frozenset(int(i) for i in f) for f in shape.faces]
            except Exception:
                facekey = None
        for name in getters:
            if name in DEPRECATED:
                continue
            try:
                v = getattr(shape, name)
            except (NotImplementedError, ImportError):
                continue
            except Exception as e:
                out[name] = ("raises", type(e).__name__)
                continue
            if hasattr(v, "radius") and hasattr(v, "centroid") and type(v).__module__.startswith("coxeter"):
                out[name] = _ball(v)
            elif type(v).__module__.startswith("coxeter"):
                out[name] = ("shape", type(v).__name__)      # e.g. .polygon / .polyhedron
            elif name == "faces":
                out[name] = ("cycles", frozenset(_canon_cycle(f) for f in v))
            elif name == "edges":
                out[name] = ("set", frozenset((int(a), int(b)) for a, b in np.asarray(v)))
            elif name in ("edge_vectors", "edge_lengths") and poly3:
                try:
                    E = [(int(a), int(b)) for a, b in np.asarray(shape.edges)]
                    out[name] = ("keyed", {e: np.asarray(x, float) for e, x in zip(E, np.asarray(v, float))})
                except Exception as e:
                    out[name] = ("raises", type(e).__name__)
            elif name == "neighbors" and facekey is not None:
                out[name] = ("keyed-set", {facekey[i]: frozenset(facekey[int(j)] for j in nb) for i, nb in enumerate(v)})
            elif name in ("equations", "normals", "face_centroids") and facekey is not None:
                out[name] = ("keyed", {facekey[i]: np.array(r, float) for i, r in enumerate(np.asarray(v, float))})
            elif name == "simplices":
                out[name] = ("count", int(len(v)))
            elif name == "gsd_shape_spec":
                out[name] = ("spec", {k: (np.array(x, float) if k == "vertices" else (len(x) if k == "indices" else x)) for k, x in v.items()})
            elif isinstance(v, (tuple, list)) and len(v) and all(np.isscalar(x) for x in v):
                out[name] = np.array([float(x) for x in v])
            elif isinstance(v, (np.ndarray, float, int, np.floating, np.integer, bool, np.bool_)):
                out[name] = np.array(v, float)
            else:
                out[name] = ("repr", repr(v)[:200])
        if light:
            return out
        # queries with canonical arguments
        if "is_inside" in methods:
            try:
                out["is_inside"] = np.asarray(shape.is_inside(probe_points(shape)), float)
            except NotImplementedError:
                pass
            except Exception as e:
                out["is_inside"] = ("raises", type(e).__name__)
        if "compute_form_factor_amplitude" in methods:
            try:
                out["compute_form_factor_amplitude"] = np.asarray(shape.compute_form_factor_amplitude(probe_q(shape)))
            except NotImplementedError:
                pass
            except Exception as e:
                out["compute_form_factor_amplitude"] = ("raises", type(e).__name__)
        if "distance_to_surface" in methods:
            try:
                out["distance_to_surface"] = np.asarray(shape.distance_to_surface(ANGLES.copy()), float)
            except NotImplementedError:
                pass
            except Exception as e:
                out["distance_to_surface"] = ("raises", type(e).__name__)
        if "get_face_area" in methods and facekey is not None:
            try:
                fa = np.atleast_1d(np.asarray(shape.get_face_area(), float))
                out["get_face_area"] = ("keyed", {facekey[i]: fa[i] for i in range(len(fa))})
            except Exception as e:
                out["get_face_area"] = ("raises", type(e).__name__)
        if "get_dihedral" in methods and facekey is not None:
            try:
                d = {}
                for i, nb in enumerate(shape.neighbors):
                    for j in nb:
                        if int(j) > i:
                            # compared through the cosine: arccos is ill-conditioned at flat (coplanar) dihedrals
                            # (NaN = arccos of -1-eps between coplanar neighbours of a general mesh: flat, cos = -1)
                            d[frozenset((facekey[i], facekey[int(j)]))] = np.nan_to_num(np.cos(np.asarray(shape.get_dihedral(i, int(j)), float)), nan=-1.0)
                out["dihedrals"] = ("keyed", d)
            except Exception as e:
                out["dihedrals"] = ("raises", type(e).__name__)
        try:
            out["__repr__"] = ("reprlen", len(repr(shape)) > 0)
        except Exception as e:
            out["__repr__"] = ("raises", type(e).__name__)
    return out


def _dim_of(name, shape3d):
    if name in DIM:
        return DIM[name]
    if name.endswith("_radius"):
        return 1
    if name == "inertia_tensor":
        return 5 if shape3d else 4
    if name == "compute_form_factor_amplitude":
        return 3 if shape3d else 2
    return None


def _cmp_num(a, b, scale, tol):
    a, b = np.asarray(a), np.asarray(b)
    if a.shape != b.shape:
        return False, float("inf")
    if a.size == 0:
        return True, 0.0
    if not (np.all(np.isfinite(a)) and np.all(np.isfinite(b))):
        same = np.array_equal(np.isnan(a), np.isnan(b)) and np.array_equal(a[np.isfinite(a)], b[np.isfinite(b)])
        return bool(same), 0.0 if same else float("inf")
    err = float(np.max(np.abs(a - b)))
    return err <= tol * scale, err / (tol * scale) if scale > 0 else (0.0 if err == 0 else float("inf"))


def compare(fa, fb, L, tol, shape3d, skip=()):
    """List of (member, reason) where the fingerprints differ beyond tolerance."""
    diffs = []
    for name in sorted(set(fa) | set(fb)):
        if name in skip:
            continue
        if name not in fa or name not in fb:
            diffs.append((name, "present-in-one-only"))
            continue
        a, b = fa[name], fb[name]
        ta = a[0] if isinstance(a, tuple) else None
        tb = b[0] if isinstance(b, tuple) else None
        if ta != tb:
            diffs.append((name, f"kind {ta if ta else 'value'} vs {tb if tb else 'value'}"
                          + (f" ({a[1]})" if ta == "raises" else "") + (f" ({b[1]})" if tb == "raises" else "")))
            continue
        dim = _dim_of(name, shape3d)
        scale = (L ** dim) if dim else 1.0
        if not dim and ta is None:
            # a dimensionless ratio of sizes each good to tol (asphericity of a needle is in the hundreds):
            # the comparison is relative to its magnitude
            try:
                mag = float(np.nanmax(np.abs(np.asarray(a, dtype=float)))) if np.size(a) else 1.0
                if np.isfinite(mag):
                    scale = max(1.0, mag)
            except (TypeError, ValueError):
                pass
        if ta is None:
            if name == "is_inside":
                if np.asarray(a).shape != np.asarray(b).shape or np.mean(np.asarray(a) != np.asarray(b)) > 0.0:
                    diffs.append((name, "answers differ"))
                continue
            ok, r = _cmp_num(a, b, scale, tol)
            if not ok:
                diffs.append((name, f"values differ (err/tol={r:.3g})"))
        elif ta == "raises":
            if a[1] != b[1]:
                diffs.append((name, f"raises {a[1]} vs {b[1]}"))
        elif ta == "ball":
            ok1, _ = _cmp_num(a[2], b[2], L, tol)
            ok2, _ = _cmp_num(a[3], b[3], L, tol)
            if not (ok1 and ok2 and a[1] == b[1]):
                diffs.append((name, "ball differs"))
        elif ta in ("cycles", "set", "count", "shape", "reprlen", "repr"):
            if a[1] != b[1]:
                diffs.append((name, "structure differs"))
        elif ta == "keyed-set":
            if a[1] != b[1]:
                diffs.append((name, "keyed sets differ"))
        elif ta == "keyed":
            if set(a[1]) != set(b[1]):
                diffs.append((name, "keys differ"))
            else:
                for k in a[1]:
                    x, y = a[1][k], b[1][k]
                    if name == "equations":
                        ok = _cmp_num(x[:3], y[:3], 1.0, max(tol, 1e-9))[0] and _cmp_num(x[3], y[3], L, tol)[0]
                    else:
                        ok = _cmp_num(x, y, scale, tol if dim else max(tol, 1e-9))[0]
                    if not ok:
                        diffs.append((name, "keyed values differ"))
                        break
        elif ta == "spec":
            if set(a[1]) != set(b[1]):
                diffs.append((name, "spec keys differ"))
            else:
                for k in a[1]:
                    x, y = a[1][k], b[1][k]
                    if isinstance(x, np.ndarray):
                        if not _cmp_num(x, y, L, tol)[0]:
                            diffs.append((name, f"spec[{k}] differs"))
                    elif isinstance(x, float):
                        if not _cmp_num(x, y, L, tol)[0]:
                            diffs.append((name, f"spec[{k}] differs"))
                    elif x != y:
                        diffs.append((name, f"spec[{k}] differs"))
    return diffs


def construction_data(shape):
    """Arguments that rebuild ``type(shape)`` from its current public construction data."""
    name = type(shape).__name__
    with contracts.quiet():
        if name in ("Polygon", "ConvexPolygon"):
            return (np.array(shape.vertices, float),), {"normal": np.array(shape.normal, float)}
        if name == "ConvexSpheropolygon":
            return (np.array(shape.vertices, float), float(shape.radius)), {"normal": np.array(shape.normal, float)}
        if name == "ConvexPolyhedron":
            return (np.array(shape.vertices, float),), {}
        if name == "ConvexSpheropolyhedron":
            return (np.array(shape.vertices, float), float(shape.radius)), {}
        if name == "Polyhedron":
            return (np.array(shape.vertices, float), [[int(i) for i in f] for f in shape.faces]), {"faces_are_convex": shape._faces_are_convex}
        if name in ("Circle", "Sphere"):
            return (float(shape.radius), np.array(shape.centroid, float)), {}
        if name == "Ellipse":
            return (float(shape.a), float(shape.b), np.array(shape.centroid, float)), {}
        if name == "Ellipsoid":
            return (float(shape.a), float(shape.b), float(shape.c), np.array(shape.centroid, float)), {}
    raise TypeError(name)


def fresh(shape):
    a, k = construction_data(shape)
    with contracts.quiet():
        return type(shape)(*a, **k)


def scaled_copy(shape, u):
    """A new object of the same class built from ``shape``'s construction data in other units (all lengths times u)."""
    a, k = construction_data(shape)
    a = tuple((np.asarray(x, float) * u if isinstance(x, np.ndarray) else (x * u if isinstance(x, float) else x)) for x in a)
    with contracts.quiet():
        return type(shape)(*a, **k)

"""Sharding, seeds, watchdog, merge, verdict, evidence / replay writers."""

import importlib
import json
import os
import random
import subprocess
import sys
import time
import traceback

import numpy as np

from . import bootstrap, events

VERIF = bootstrap.VERIF
EVID = os.path.join(VERIF, "evidence")
REPLAYS = os.path.join(VERIF, "replays")
KNOWN = os.path.join(VERIF, "known_findings.json")
NCPU = 16


def propnum(prop):
    return int(prop[1:])


def load_check(prop):
    return importlib.import_module(f"vf.checks.{prop.lower()}")


def case_rng(seed, prop, i):
    ss = np.random.SeedSequence([int(seed), propnum(prop), int(i)])
    rng = np.random.default_rng(ss)
    s32 = int(ss.generate_state(1)[0])
    random.seed(s32)          # miniball draws from the global `random` state
    np.random.seed(s32)       # rowan.random.rand draws from numpy's global state
    return rng


# ---------------------------------------------------------------------------
# shard side
# ---------------------------------------------------------------------------
def run_shard(prop, tier, seed, shard, nshards, only_case=None):
    bootstrap.ensure()
    mod = load_check(prop)
    rec = events.Recorder(prop, tier, seed, shard)
    from . import observe

    lineobs = observe.LineObserver(getattr(mod, "ANCHORS", []))
    fpobs = observe.FPObserver(rec)
    n = mod.ncases(tier)
    state = None
    try:
        lineobs.start()
        fpobs.start()
        if hasattr(mod, "setup"):
            state = mod.setup(rec, tier)
        from . import contracts as _cp

        for base, sub, member, which in _cp.propagate_overrides():
            rec.note(f"monitor of {base}.{member} also installed on the override in {sub}")
        todo = [only_case] if only_case is not None else range(shard, n, nshards)
        for i in todo:
            rec.case = i
            rng = case_rng(seed, prop, i)
            try:
                mod.run_case(i, rng, rec, tier, state)
            except Exception as e:
                if type(e).__name__ == "DegenerateInput":
                    rec.note("oracle: degenerate input outside the generator margins, case not judged")
                else:
                    rec.inconc("harness-error case %d: %s" % (i, traceback.format_exc(limit=6)[-1500:]))
            rec.cases_run += 1
        rec.case = None
        if hasattr(mod, "finish"):
            mod.finish(rec, tier, state)
        from . import contracts as _c

        for key, phase, tb in _c.ERRORS:
            rec.inconc(f"monitor callback raised ({key} {phase}): {tb}")
        if _c.DEGENERATE[0]:
            rec.note("oracle: degenerate input outside the generator margins, monitored call not judged", _c.DEGENERATE[0])
    finally:
        fpobs.stop()
        lineobs.stop()
        from . import contracts

        contracts.unhook_all()
    rec.lines = lineobs.report()
    return rec.dump()


# ---------------------------------------------------------------------------
# parent side
# ---------------------------------------------------------------------------
def load_known():
    try:
        with open(KNOWN) as f:
            return json.load(f)
    except FileNotFoundError:
        return {"findings": [], "fixed": []}


def run_check(prop, tier, seed, shards=None, replay=None):
    t0 = time.time()
    bootstrap.ensure()
    mod = load_check(prop)
    n = mod.ncases(tier)
    nshards = shards or max(1, min(NCPU, n))
    tmp = os.path.join(VERIF, ".shard_tmp", f"{prop}-{os.getpid()}")
    os.makedirs(tmp, exist_ok=True)
    env = dict(os.environ)
    env.update({"PYTHONHASHSEED": "0", "PYTHONDONTWRITEBYTECODE": "1",
                "OMP_NUM_THREADS": "1", "OPENBLAS_NUM_THREADS": "1", "MKL_NUM_THREADS": "1",
                "MPLBACKEND": "Agg"})
    watchdog = float(getattr(mod, "WATCHDOG", {}).get(tier, 1500 if tier == "quick" else 7200))
    procs = []
    if replay is not None:
        nshards = 1
    for s in range(nshards):
        out = os.path.join(tmp, f"shard{s}.json")
        cmd = [bootstrap.PY, "-m", "vf.shard", prop, tier, str(seed), str(s), str(nshards), out]
        if replay is not None:
            cmd.append(str(replay))
        procs.append((s, out, subprocess.Popen(cmd, cwd=VERIF, env=env,
                                               stdout=subprocess.PIPE, stderr=subprocess.STDOUT)))
    reports, inconclusive = [], []
    deadline = t0 + watchdog
    for s, out, p in procs:
        try:
            so, _ = p.communicate(timeout=max(1.0, deadline - time.time()))
        except subprocess.TimeoutExpired:
            p.kill()
            so, _ = p.communicate()
            inconclusive.append(f"shard {s} hit the wall-clock watchdog ({watchdog:.0f}s)")
            continue
        if p.returncode != 0 or not os.path.exists(out):
            inconclusive.append(f"shard {s} died rc={p.returncode}: {so.decode(errors='replace')[-800:]}")
            continue
        with open(out) as f:
            reports.append(json.load(f))
    for s, out, p in procs:
        if os.path.exists(out):
            os.remove(out)
    try:
        os.rmdir(tmp)
        os.rmdir(os.path.dirname(tmp))
    except OSError:
        pass
    m = events.merge(reports)
    inconclusive.extend(m["inconclusive"])
    # --- required monitors / classes --------------------------------------
    if replay is None:
        for mon in getattr(mod, "REQUIRED_MONITORS", []):
            if m["evals"].get(mon, 0) == 0:
                inconclusive.append(f"monitor {mon} never evaluated")
        for c in getattr(mod, "REQUIRED_CLASSES", []):
            if m["classes"].get(c, 0) == 0:
                inconclusive.append(f"input class {c} never produced")
        for fn, (seen, total) in m["lines"].items():
            if total and not seen and fn not in getattr(mod, "OPTIONAL_ANCHORS", []):
                inconclusive.append(f"anchored function {fn} never entered")
        if sum(m["evals"].values()) == 0:
            inconclusive.append("no evaluations at all")
        deg = sum(v for k, v in m["notes"].items() if k.startswith("oracle: degenerate input") and "case not judged" in k)
        if deg > 0.02 * max(1, m["cases_run"]):
            inconclusive.append(f"{deg} of {m['cases_run']} cases were refused by the oracle as degenerate (generator or oracle problem)")
    # --- classify violations ----------------------------------------------
    known = load_known()
    open_k = {k["mechanism"]: k for k in known.get("findings", [])
              if k.get("property") == prop and k.get("status") == "open"}
    unlisted = {k: v for k, v in m["viol_count"].items() if k not in open_k}
    lines = []
    os.makedirs(REPLAYS, exist_ok=True)
    for mech, k in sorted(open_k.items()):
        cnt = m["viol_count"].get(mech, 0)
        lines.append(f"KNOWN-FINDING: property={prop} {mech} :: {k.get('what', '')} "
                     f"(observed {cnt}x in this run)")
    for mech in sorted(unlisted):
        slug = "".join(ch if ch.isalnum() or ch in "-_." else "_" for ch in mech)[:80]
        path = os.path.join(REPLAYS, f"{prop}-{slug}-seed{seed}-{tier}{'-replayed' if replay is not None else ''}.json")
        with open(path, "w") as f:
            json.dump({"property": prop, "mechanism": mech, "count": unlisted[mech], "seed": seed,
                       "tier": tier, "witnesses": m["violations"].get(mech, []),
                       "replay_cmd": f"/venv/bin/python vcheck.py {prop} --tier {tier} --replay {path}"},
                      f, indent=1)
        lines.append(f"VIOLATION property={prop} replay={path}")
    nviol = sum(unlisted.values())
    wall = time.time() - t0
    # --- evidence -----------------------------------------------------------
    evals = int(sum(m["evals"].values()))
    cov = {
        "evaluations": evals,
        "distinct_nontrivial": len(m["nontrivial"]),
        "rule": getattr(mod, "RULE", ""),
        "samples": m["samples"] or [{"note": "no sample recorded"}],
        "cases_run": m["cases_run"],
        "cases_planned": n,
        "monitor_evaluations": dict(sorted(m["evals"].items())),
        "input_classes": dict(sorted(m["classes"].items())),
        "not_judged_and_other_counters": dict(sorted(m["notes"].items())),
        "max_error_over_tolerance": {k: float("%.3g" % v) for k, v in sorted(m["ratios"].items())},
        "anchor_lines_seen": {fn: f"{len(seen)}/{total}" for fn, (seen, total) in sorted(m["lines"].items())},
        "known_findings_matched": {k: m["viol_count"].get(k, 0) for k in sorted(open_k)},
        "unlisted_violation_mechanisms": {k: int(v) for k, v in sorted(unlisted.items())},
        "inconclusive": inconclusive,
        "shards": nshards,
        "verdict": "violated" if nviol else ("inconclusive" if inconclusive else "held-on-observed"),
    }
    if getattr(mod, "EXHAUSTIVE", False):
        cov["exhaustive"] = True
    cov.update(getattr(mod, "EXTRA_COVERAGE", {}))
    ev = {"property_id": prop, "tier": tier, "seed": int(seed), "level": "exploration",
          "coverage": cov, "assumptions": list(getattr(mod, "ASSUMPTIONS", [])),
          "wall_s": round(wall, 2), "violations": int(nviol)}
    if replay is None and not os.environ.get("VERIF_NO_EVIDENCE"):
        write_evidence(prop, ev)
    if replay is not None:
        # show what the monitors saw on the replayed case
        print(json.dumps({k: v[:2] for k, v in m["violations"].items()}, indent=1)[:6000])
    for ln in lines:
        print(ln)
    for r in inconclusive:
        print(f"INCONCLUSIVE property={prop} reason={r[:600]}")
    print(f"{prop} tier={tier} seed={seed}: evaluations={evals} distinct_nontrivial={cov['distinct_nontrivial']} "
          f"cases={m['cases_run']}/{n} unlisted_violations={nviol} known={sum(cov['known_findings_matched'].values())} "
          f"verdict={cov['verdict']} wall={wall:.1f}s")
    if nviol:
        return 1
    if inconclusive:
        return 2
    return 0


def write_evidence(prop, ev):
    os.makedirs(EVID, exist_ok=True)
    try:
        import jsonschema

        with open("/root/.vp/EVIDENCE.schema.json") as f:
            schema = json.load(f)
        jsonschema.validate(ev, schema)
    except FileNotFoundError:
        pass
    except Exception as e:  # schema violation: still write, but say so loudly
        print(f"WARNING evidence for {prop} does not validate: {str(e)[:300]}", file=sys.stderr)
    path = os.path.join(EVID, f"{prop}.json")
    with open(path + ".tmp", "w") as f:
        json.dump(ev, f, indent=1, sort_keys=True)
    os.replace(path + ".tmp", path)

"""Offline bootstrap: third-party helper packages and sys.path.

``python -m vf.bootstrap`` (MANIFEST.setup_cmd) installs mpmath, icontract and
jsonschema from the offline wheelhouse into /verif/.deps (git-ignored).  Every
check calls :func:`ensure` first, so a missing .deps is rebuilt inside the check.
"""

import fcntl
import os
import subprocess
import sys

VERIF = os.path.dirname(os.path.dirname(os.path.abspath(__file__)))
DEPS = os.path.join(VERIF, ".deps")
WHEELS = "/opt/veriftools/wheels"
PKGS = ["mpmath", "icontract", "jsonschema"]
PY = "/venv/bin/python"


def repo_root():
    return os.environ.get("VERIF_REPO_ROOT", "/repo")


def _have():
    return all(os.path.isdir(os.path.join(DEPS, p)) for p in PKGS)


def ensure():
    """Make sure .deps exists (under a lock) and put it and the repo on sys.path."""
    if not _have():
        os.makedirs(DEPS, exist_ok=True)
        with open(os.path.join(DEPS, ".lock"), "w") as lk:
            fcntl.flock(lk, fcntl.LOCK_EX)
            if not _have():
                subprocess.run(
                    [PY, "-m", "pip", "install", "--quiet", "--no-index",
                     "--find-links", WHEELS, "--target", DEPS] + PKGS,
                    check=True, stdout=subprocess.DEVNULL,
                )
    if DEPS not in sys.path:
        sys.path.insert(1, DEPS)
    root = repo_root()
    if root in sys.path:
        sys.path.remove(root)
    sys.path.insert(0, root)
    if VERIF not in sys.path:
        sys.path.insert(1, VERIF)


if __name__ == "__main__":
    ensure()
    import icontract  # noqa: F401
    import jsonschema  # noqa: F401
    import mpmath  # noqa: F401

    print("vf.bootstrap: deps ready in", DEPS)

"""Give a freshly constructed shape a past before a value check judges it.

The value checks (C01, C04, C05, C06, C13, C14 ...) attach postconditions to the real getters and
queries; every oracle reads the shape's *current* public construction data (vertices, faces,
normal, radius, semi-axes, centre) at the moment of the call, so it is just as valid for an object
that has been read and resized before as for a new one.  What such an object adds is everything a
class may remember between calls: memoised values, cached frames, buffers that a setter forgets to
refresh.  ``age`` performs a short, seeded history through the public API only:

    reads (fill whatever the object memoises)  ->  1-3 assignments found by reflection
    (size-like setters with a positive factor, one semi-axis, the rounding radius, centroid/center
    to a point nearby, optionally the core of a spheropolytope through .polyhedron/.polygon,
    optionally diagonalize_inertia / to_hoomd)  ->  reads again after each assignment.

It runs with the monitors quiet (the history is a means, not a judged execution) and returns the
list of operations for the witness.  Sizes move by at most e^(+-1.2) per step and centres by at most
two sizes, so the shape stays inside the ranges the generators promise."""

import warnings

import numpy as np

from . import contracts, fingerprint

_READS_2D = ("area", "perimeter", "centroid", "iq", "planar_moments_inertia", "polar_moment_inertia", "inertia_tensor",
             "minimal_bounding_circle", "minimal_centered_bounding_circle", "maximal_centered_bounded_circle",
             "maximal_bounded_circle", "circumcircle", "incircle", "signed_area", "eccentricity", "gsd_shape_spec")
_READS_3D = ("volume", "surface_area", "centroid", "iq", "inertia_tensor", "minimal_bounding_sphere",
             "minimal_centered_bounding_sphere", "maximal_centered_bounded_sphere", "maximal_bounded_sphere",
             "circumsphere", "insphere", "mean_curvature", "tau", "asphericity", "edges", "edge_lengths", "faces", "normals",
             "neighbors", "face_centroids", "num_edges", "equations", "gsd_shape_spec")


def _size(s):
    return fingerprint.length_scale(s)[0]


def _where(s):
    for nm in ("centroid", "center"):
        try:
            return np.asarray(getattr(s, nm), float)
        except Exception:
            pass
    return np.asarray(s.vertices, float).mean(0)


def _reads(s, rng, frac=0.7):
    """Call a random subset of the queries that a class could be tempted to memoise."""
    with contracts.quiet(), warnings.catch_warnings(), np.errstate(all="ignore"):
        warnings.simplefilter("ignore")
        _reads_body(s, rng, frac)


def _reads_body(s, rng, frac):
    names = _READS_3D if fingerprint.is3d(s) else _READS_2D
    size = _size(s)
    c = _where(s)
    for nm in names:
        if rng.random() > frac or not hasattr(type(s), nm):
            continue
        try:
            getattr(s, nm)
        except Exception:
            pass
    for nm, arg in (("is_inside", c[None, :] + rng.normal(size=(5, 3)) * size * (1 if fingerprint.is3d(s) else np.array([1, 1, 0]))),
                    ("distance_to_surface", rng.uniform(-7, 7, size=6)),
                    ("compute_form_factor_amplitude", rng.normal(size=(3, 3)) / max(size, 1e-300)),
                    ("get_face_area", None), ("get_dihedral", (0, 1))):
        if rng.random() > frac or not hasattr(type(s), nm):
            continue
        try:
            if nm == "get_face_area":
                s.get_face_area()
            elif nm == "get_dihedral":
                nb = s.neighbors
                s.get_dihedral(0, int(nb[0][0]))
            else:
                getattr(s, nm)(arg)
        except Exception:
            pass


def age(s, rng, steps=None, allow=("size", "axis", "radius", "move", "core", "rigid"), reads=True, inplane=False):
    """Run a short public history on ``s`` in place; returns the list of operations performed."""
    log = []
    cls = type(s)
    _, setters, methods = fingerprint.members(cls)
    size_like = [n for n in setters if n not in ("centroid", "center", "radius", "a", "b", "c")]
    if cls.__name__ in ("Circle", "Sphere"):
        size_like.append("radius")
    axis_like = [n for n in ("a", "b", "c") if n in setters]
    moves = [n for n in ("centroid", "center") if n in setters]
    steps = int(rng.integers(1, 4)) if steps is None else steps
    with contracts.quiet(), warnings.catch_warnings(), np.errstate(all="ignore"):
        warnings.simplefilter("ignore")
        if reads:
            _reads(s, rng)
        for _ in range(steps):
            kinds = []
            if "size" in allow and size_like:
                kinds += ["size", "size"]
            if "axis" in allow and axis_like:
                kinds += ["axis", "axis"]
            if "radius" in allow and "radius" in setters and cls.__name__ not in ("Circle", "Sphere"):
                kinds += ["radius"]
            if "move" in allow and moves:
                kinds += ["move"]
            if "core" in allow and (hasattr(cls, "polyhedron") or hasattr(cls, "polygon")):
                kinds += ["core"]
            if "rigid" in allow and "diagonalize_inertia" in methods and cls.__name__ in ("ConvexPolyhedron", "Polyhedron"):
                kinds += ["rigid"]
            if "rigid" in allow and "to_hoomd" in methods:
                kinds += ["hoomd"]
            if not kinds:
                break
            kind = kinds[int(rng.integers(len(kinds)))]
            f = float(np.exp(rng.uniform(-1.2, 1.2)))
            try:
                if kind in ("size", "axis", "radius"):
                    pool = size_like if kind == "size" else (axis_like if kind == "axis" else ["radius"])
                    nm = pool[int(rng.integers(len(pool)))]
                    try:
                        cur = float(getattr(s, nm))
                    except Exception:
                        continue            # not provided on this shape (no circumsphere ...)
                    if not np.isfinite(cur) or cur <= 0:
                        continue
                    target = cur * f
                    form = ""
                    if hasattr(s, "vertices") and not hasattr(cls, "radius") and rng.random() < 0.25:
                        # the target as a reduced-precision or integer NumPy scalar (a value read from a float32 / int array):
                        # the shape ends up at that value, and everything it reports must still describe its own vertices.
                        # (Not for shapes that *keep* a scalar parameter - radius, semi-axes: those take over the scalar's
                        # type by NumPy's own rules and then compute at that precision, which no statement forbids.)
                        if rng.random() < 0.6:
                            target, form = np.float32(target), " [float32 target]"
                        elif target >= 1.5:
                            target, form = np.int64(round(target)), " [int64 target]"
                    setattr(s, nm, target)
                    log.append(f"{nm}*={f:.4g}{form}")
                elif kind == "move":
                    nm = moves[int(rng.integers(len(moves)))]
                    size = _size(s)
                    d = rng.uniform(-2, 2, size=3) * size
                    if inplane:
                        d[2] = 0.0
                    elif not fingerprint.is3d(s) and not hasattr(s, "vertices"):
                        d[2] = 0.0 if rng.random() < 0.7 else d[2]
                    target = _where(s) + d
                    form = int(rng.integers(3))
                    if form == 0:
                        setattr(s, nm, target)
                    elif form == 1:
                        setattr(s, nm, [float(x) for x in target])
                    else:
                        # the caller's own position buffer: handed over, then reused by the caller for something else
                        buf = np.array(target, dtype=np.float64)
                        setattr(s, nm, buf)
                        buf += 7.77 * size + 1.0
                        buf[:] = np.nan
                    log.append(f"{nm}+=({d[0]:.3g},{d[1]:.3g},{d[2]:.3g})" + ("" if form < 2 else " [caller reuses the array afterwards]"))
                elif kind == "core":
                    core = s.polyhedron if hasattr(cls, "polyhedron") else s.polygon
                    nm = "volume" if hasattr(type(core), "volume") else "area"
                    setattr(core, nm, float(getattr(core, nm)) * f)
                    log.append(f"core.{nm}*={f:.4g}")
                elif kind == "rigid":
                    s.diagonalize_inertia()
                    log.append("diagonalize_inertia()")
                elif kind == "hoomd":
                    s.to_hoomd()
                    log.append("to_hoomd()")
            except Exception as e:    # a refusal is the setter's business (C08); the history just goes on
                log.append(f"{kind}:raised-{type(e).__name__}")
                continue
            if reads and rng.random() < 0.6:
                _reads(s, rng, frac=0.4)
    return log


def age_or_sibling(s, rng, frac=0.3, **kw):
    """Like ``age`` - but in ``frac`` of the calls the history happens to a *sibling*: a second object built from the same
    construction data (bit-identical vertices / parameters), which is then read, resized, moved and reoriented while ``s``
    itself is left alone.  Whatever two objects of a class share behind the scenes (a module-level memo keyed by the
    vertices, a buffer handed from one instance to the next) shows up as ``s`` no longer describing its own geometry.
    Returns (log, sibling-or-None); keep the sibling referenced while ``s`` is being judged."""
    u = rng.random()
    if u >= frac:
        return age(s, rng, **kw), None
    if u < frac / 3:
        # a *different* object of the same class, built after ``s`` and read before ``s`` is: a table kept at class level and
        # keyed by something both objects have (face indices, a name) would carry the companion's values over to ``s``
        try:
            import coxeter.shapes as cs
            from . import bases

            with contracts.quiet():
                lst = bases.base_shapes(cs)[type(s).__name__]
                comp = lst[int(rng.integers(len(lst)))][1]()
            _reads(comp, rng, frac=1.0)
            return ["a different object of the same class was built and read first"], comp
        except Exception:
            return age(s, rng, **kw), None
    try:
        with contracts.quiet():
            sib = fingerprint.fresh(s)
    except Exception:
        return age(s, rng, **kw), None
    kw = dict(kw)
    kw["reads"] = True
    log = age(sib, rng, **kw)
    return ["sibling built from the same data: " + x for x in log], sib

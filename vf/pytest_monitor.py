"""pytest plugin: run the repository's own tests with the monitors recording (calibration).

    cd /repo && PYTHONPATH=/verif:/verif/.deps /venv/bin/python -m pytest -p vf.pytest_monitor \
        -q -p no:cacheprovider -n 12 tests
    /venv/bin/python -m vf.pytest_monitor --merge        # summary of what fired

A contract that fires under the repository's tests is either too strict (a false alarm of
the harness) or a defect the tests do not assert; it is the cheapest detector of both.
Nothing here feeds the exit code of a registered check.
"""

import glob
import json
import os
import sys

OUT = os.environ.get("VERIF_PYTEST_MONITOR_OUT", "/tmp/verif_pytest_monitor")
CHECKS = os.environ.get("VERIF_PYTEST_MONITOR_CHECKS", "c01,c02,c04,c05,c06,c07,c10,c11,c13,c14,c15").split(",")
_state = {}


def pytest_configure(config):
    from . import bootstrap

    bootstrap.ensure()
    import importlib

    from . import events

    try:
        from hypothesis import settings

        settings.register_profile("verif-monitor", deadline=None)
        settings.load_profile("verif-monitor")
    except Exception:
        pass
    rec = events.Recorder("PYTEST", "quick", 0, 0)
    rec.case = "repo-tests"
    _state["rec"] = rec
    _state["mods"] = []
    for name in CHECKS:
        mod = importlib.import_module(f"vf.checks.{name}")
        try:
            mod.setup(rec, "quick")
            contracts.propagate_overrides()
            _state["mods"].append(name)
        except Exception as e:  # pragma: no cover
            print(f"vf.pytest_monitor: could not install {name}: {e!r}", file=sys.stderr)


def pytest_runtest_setup(item):
    rec = _state.get("rec")
    if rec is not None:
        rec.case = item.nodeid


def pytest_sessionfinish(session, exitstatus):
    rec = _state.get("rec")
    if rec is None:
        return
    from . import contracts

    contracts.unhook_all()
    os.makedirs(OUT, exist_ok=True)
    worker = os.environ.get("PYTEST_XDIST_WORKER", "main")
    rep = rec.dump()
    rep["monitor_errors"] = [list(e) for e in contracts.ERRORS]
    with open(os.path.join(OUT, f"{worker}.json"), "w") as f:
        json.dump(rep, f)


def merge():
    from . import events

    reps = [json.load(open(p)) for p in glob.glob(os.path.join(OUT, "*.json"))]
    m = events.merge(reps)
    print("monitors evaluated under the repository tests:")
    for k, v in sorted(m["evals"].items()):
        print(f"  {v:8d}  {k}")
    print("violations recorded (mechanism: count, first test):")
    for k, v in sorted(m["viol_count"].items()):
        first = m["violations"][k][0]["case"] if m["violations"].get(k) else "?"
        print(f"  {v:6d}  {k}   [{first}]")
    errs = [e for r in reps for e in r.get("monitor_errors", [])]
    print(f"monitor callback errors: {len(errs)}")
    for e in errs[:5]:
        print("   ", e[0], e[1], e[2][-300:])
    with open(os.path.join(OUT, "merged_summary.json"), "w") as f:
        json.dump({"evals": dict(m["evals"]), "viol_count": dict(m["viol_count"]),
                   "violations": {k: v[:3] for k, v in m["violations"].items()}}, f, indent=1)


if __name__ == "__main__":
    if "--merge" in sys.argv:
        merge()

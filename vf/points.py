"""G-points / G-q / G-theta: hostile query generators."""

import numpy as np

from . import gen

DELTAS = (1e-1, 1e-3, 1e-5)


def points3d(rng, V, tris, n, lattice=False):
    """Query points for a solid with vertices V and surface triangles tris (outward)."""
    V = np.asarray(V, float)
    lo, hi = V.min(0), V.max(0)
    size = float((hi - lo).max())
    out = []
    k1 = n // 3
    out.append(rng.uniform(lo - 0.3 * size, hi + 0.3 * size, size=(k1, 3)))
    # near the surface: point on a random triangle / edge / vertex, pushed along the normal
    k2 = n // 3
    t = tris[rng.integers(len(tris), size=k2)]
    mode = rng.integers(3, size=k2)
    w = rng.dirichlet([1, 1, 1], size=k2)
    w[mode == 1, 2] = 0          # on an edge
    w[mode == 1] /= w[mode == 1].sum(1, keepdims=True)
    w[mode == 2] = [1.0, 0, 0]   # at a vertex
    p = (w[:, :, None] * t).sum(1)
    nrm = np.cross(t[:, 1] - t[:, 0], t[:, 2] - t[:, 0])
    nrm /= np.maximum(np.linalg.norm(nrm, axis=1), 1e-300)[:, None]
    # edge/vertex: random outward-ish direction
    jitter = rng.normal(size=(k2, 3)) * (mode != 0)[:, None] * 0.7
    d = nrm + jitter
    d /= np.linalg.norm(d, axis=1)[:, None]
    delta = rng.choice(DELTAS, size=k2) * rng.choice([-1, 1], size=k2) * size
    out.append(p + d * delta[:, None])
    # sharing coordinates with vertices (degenerate for winding-number code)
    k3 = n - k1 - k2
    i, j, k = (rng.integers(len(V), size=k3) for _ in range(3))
    q = np.column_stack((V[i, 0], V[j, 1], V[k, 2]))
    # on the axis-parallel lines through vertices (two coordinates shared with the *same* vertex)
    same = rng.random(k3) < 0.3
    ax = rng.integers(3, size=k3)
    for a_ in range(3):
        m = same & (ax != a_)
        q[m, a_] = V[i[m], a_]
    if lattice:
        # half-lattice offsets on a random subset of coordinates, >= 0.25 cell from the surface in that axis
        off = rng.choice([0.0, 0.5, -0.5, 0.25], size=(k3, 3)) * (rng.random((k3, 3)) < 0.6)
        q = q + off * 1.0
    else:
        keep = rng.random((k3, 3)) < 0.5
        q = np.where(keep, q, rng.uniform(lo - 0.2 * size, hi + 0.2 * size, size=(k3, 3)))
    out.append(q)
    if n >= 50:
        # the three axis-parallel lines through (up to 40) vertices: the query shares two coordinates with a vertex
        sel = V if len(V) <= 40 else V[rng.choice(len(V), size=40, replace=False)]
        m = 8
        for a_ in range(3):
            L_ = np.repeat(sel, m, axis=0).copy()
            L_[:, a_] = rng.uniform(lo[a_] - 0.15 * size, hi[a_] + 0.15 * size, size=len(L_))
            out.append(L_)
    return np.vstack(out)


def points2d(rng, xy, n):
    """In-plane query points (2-D coordinates in the polygon's frame) for polygon xy."""
    xy = np.asarray(xy, float)
    lo, hi = xy.min(0), xy.max(0)
    size = float((hi - lo).max())
    k1 = n // 3
    out = [rng.uniform(lo - 0.3 * size, hi + 0.3 * size, size=(k1, 2))]
    k2 = n // 3
    i = rng.integers(len(xy), size=k2)
    a, b = xy[i], xy[(i + 1) % len(xy)]
    w = rng.random(k2)
    w[rng.random(k2) < 0.25] = 0.0          # at a vertex
    p = a + w[:, None] * (b - a)
    e = b - a
    nrm = np.column_stack((e[:, 1], -e[:, 0]))
    nrm /= np.maximum(np.linalg.norm(nrm, axis=1), 1e-300)[:, None]
    delta = rng.choice(DELTAS, size=k2) * rng.choice([-1, 1], size=k2) * size
    out.append(p + nrm * delta[:, None])
    k3 = n - k1 - k2
    i, j = rng.integers(len(xy), size=k3), rng.integers(len(xy), size=k3)
    q = np.column_stack((xy[i, 0], xy[j, 1]))
    keep = rng.random((k3, 2)) < 0.6
    q = np.where(keep, q, rng.uniform(lo - 0.2 * size, hi + 0.2 * size, size=(k3, 2)))
    out.append(q)
    if n >= 9:
        # the axis-parallel lines through every vertex (ties of sign-based winding code), a few points per line
        m = 6
        vx = np.repeat(xy[:, 0], m)
        vy = np.repeat(xy[:, 1], m)
        out.append(np.column_stack((vx, rng.uniform(lo[1] - 0.1 * size, hi[1] + 0.1 * size, size=len(vx)))))
        out.append(np.column_stack((rng.uniform(lo[0] - 0.1 * size, hi[0] + 0.1 * size, size=len(vy)), vy)))
    return np.vstack(out)


def wavevectors(rng, size, normals=None, edges=None, n=30):
    """G-q: |q|*size in {0} U [1e-3, 30]: random directions, along face normals,
    perpendicular to edges, along axes, +-pairs, approach sequences."""
    qs, tags = [], []

    def add(q, tag):
        qs.append(np.asarray(q, float))
        tags.append(tag)

    add([0.0, 0, 0], "zero")
    for _ in range(max(2, n // 5)):
        mag = float(np.exp(rng.uniform(np.log(1e-3), np.log(30)))) / size
        add(gen.random_unit(rng) * mag, "generic")
    ax = np.zeros(3)
    ax[int(rng.integers(3))] = float(np.exp(rng.uniform(np.log(1e-2), np.log(30)))) / size * float(rng.choice([-1, 1]))
    add(ax, "axis")
    if normals is not None and len(normals):
        for _ in range(max(2, n // 6)):
            nv = normals[int(rng.integers(len(normals)))]
            mag = float(np.exp(rng.uniform(np.log(1e-2), np.log(30)))) / size
            add(nv * mag, "along-normal")
        # approach a face normal: in-plane component shrinking to the lower end of the range
        nv = normals[int(rng.integers(len(normals)))]
        tdir = np.cross(nv, gen.random_unit(rng))
        tdir /= np.linalg.norm(tdir)
        mag = float(rng.uniform(1, 10)) / size
        for eps in (1e-1, 1e-2, 1e-3):
            add(nv * mag + tdir * eps / size, "approach-normal")
    if edges is not None and len(edges):
        for _ in range(max(2, n // 6)):
            e = edges[int(rng.integers(len(edges)))]
            r = np.cross(e, gen.random_unit(rng))
            r /= np.linalg.norm(r)
            add(r * float(np.exp(rng.uniform(np.log(1e-2), np.log(30)))) / size, "perp-edge")
    g = gen.random_unit(rng) * float(rng.uniform(0.5, 10)) / size
    add(g, "pair+")
    add(-g, "pair-")
    d = gen.random_unit(rng)
    for eps in (1e-1, 1e-2, 1e-3):
        add(d * eps / size, "approach-zero")
    return np.array(qs), tags


def angles(rng, vertex_dirs=None, n=200):
    out = [rng.uniform(-4 * np.pi, 4 * np.pi, size=n // 2)]
    base = np.arange(-16, 17) * np.pi / 4
    out.append(base)
    out.append(np.nextafter(base, np.inf))
    out.append(np.nextafter(base, -np.inf))
    if vertex_dirs is not None and len(vertex_dirs):
        vd = np.asarray(vertex_dirs, float)
        out.append(vd)
        out.append(vd + 2 * np.pi * rng.integers(-2, 3, size=len(vd)))
    out.append(rng.uniform(0, 2 * np.pi, size=n // 4))
    return np.concatenate(out)


def layouts(arr, rng=None):
    """The same numerical array in the other memory layouts a caller may hold it in: [(label, array)].
    Values are bit-identical to ``arr`` in every form, so the callee's answers must be identical too."""
    a = np.ascontiguousarray(arr, dtype=np.float64)
    out = []
    if a.ndim == 2:
        out.append(("fortran-order", np.asfortranarray(a)))
        wide = np.zeros((a.shape[0], 2 * a.shape[1]))
        wide[:, ::2] = a
        out.append(("strided-columns", wide[:, ::2]))
        tall = np.zeros((2 * a.shape[0], a.shape[1]))
        tall[::2] = a
        out.append(("strided-rows", tall[::2]))
        out.append(("reversed-view", a[::-1][::-1]))
    else:
        long = np.zeros(2 * a.shape[0])
        long[::2] = a
        out.append(("strided", long[::2]))
    ro = a.copy()
    ro.setflags(write=False)
    out.append(("read-only", ro))
    return out

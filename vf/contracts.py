"""Install / remove monitors on the real coxeter classes, from outside /repo.

A monitor is a triple of optional callbacks around one member of one class:

    pre(self, args, kwargs)                  -> token (any)
    post(self, args, kwargs, result, token)  -> None          (normal return)
    raised(self, args, kwargs, exc, token)   -> None          (escaping exception)

Callbacks *record* into the shard's Recorder and return; the wrapped call's result
or exception is always passed through untouched, so the library never sees an
exception it did not raise itself.  A process-wide re-entrancy flag makes every
monitor transparent while an oracle, fingerprint or another monitor is running
(those call back into coxeter).

icontract is used for what it is good at -- plain postconditions on getters
(`ensure_getter`) -- while before/after and exception monitors use the
hand-written wrapper, because icontract cannot observe a raising call.
"""

import functools
import inspect
import threading
from functools import cached_property

_state = threading.local()
_installed = []   # (cls, name, original attribute)
CALLS = {}        # (cls name, member) -> number of times the wrapper ran


ERRORS = []      # (member key, phase, traceback text): monitor bugs, reported as INCONCLUSIVE


DEGENERATE = [0]     # oracle refused an input as degenerate (outside the generator margins): not judged


def _callback_error(key, phase, exc):
    import traceback

    if type(exc).__name__ == "DegenerateInput":
        DEGENERATE[0] += 1
        return

    if len(ERRORS) < 20:
        ERRORS.append((str(key), phase, "".join(traceback.format_exception(type(exc), exc, exc.__traceback__, limit=5))[-1200:]))


def busy():
    return getattr(_state, "busy", 0) > 0


class quiet:
    """Context manager: monitors are transparent inside."""

    def __enter__(self):
        _state.busy = getattr(_state, "busy", 0) + 1

    def __exit__(self, *a):
        _state.busy -= 1


def _wrap(func, key, pre, post, raised):
    @functools.wraps(func)
    def wrapper(self, *args, **kwargs):
        if busy():
            return func(self, *args, **kwargs)
        CALLS[key] = CALLS.get(key, 0) + 1
        token = None
        if pre is not None:
            with quiet():
                try:
                    token = pre(self, args, kwargs)
                except Exception as e:      # a monitor must never disturb the program it observes
                    _callback_error(key, "pre", e)
        try:
            result = func(self, *args, **kwargs)
        except BaseException as exc:
            if raised is not None and isinstance(exc, Exception):
                with quiet():
                    try:
                        raised(self, args, kwargs, exc, token)
                    except Exception as e:
                        _callback_error(key, "raised", e)
            raise
        if post is not None:
            with quiet():
                try:
                    post(self, args, kwargs, result, token)
                except Exception as e:
                    _callback_error(key, "post", e)
        return result

    wrapper.__verif_wrapped__ = func
    return wrapper


_HOOKS = []
PROPAGATED = []


def _all_subclasses(cls):
    out = []
    for sub in cls.__subclasses__():
        out.append(sub)
        out.extend(_all_subclasses(sub))
    return out


def _is_wrapped(attr, which):
    if isinstance(attr, property):
        f = attr.fget if which == "get" else attr.fset
    elif isinstance(attr, cached_property):
        f = attr.func
    else:
        f = attr
    return f is None or hasattr(f, "__verif_wrapped__")


def propagate_overrides():
    """A subclass that *overrides* a monitored member escapes the monitor: its instances never reach the wrapped parent
    attribute.  After a check has installed its hooks, every such override that carries no monitor of its own gets the
    parent's callbacks (a monitor of a class holds for everything that is-a that class; callbacks meant for one exact
    type test ``type(self)`` themselves).  On the unchanged tree this only adds what the checks' own type tests ignore;
    it matters for changes that introduce a new override (a 'fast' ConvexPolygon.is_inside, say)."""
    for cls, name, pre, post, raised, which in list(_HOOKS):
        for sub in _all_subclasses(cls):
            if name not in sub.__dict__ or not sub.__module__.startswith("coxeter"):
                continue
            a = inspect.getattr_static(sub, name)
            if isinstance(a, (classmethod, staticmethod)) or _is_wrapped(a, which):
                continue
            if which == "set" and not isinstance(a, property):
                continue
            hook(sub, name, pre=pre, post=post, raised=raised, which=which)
            PROPAGATED.append((cls.__name__, sub.__name__, name, which))
    return list(PROPAGATED)


def hook(cls, name, pre=None, post=None, raised=None, which="get"):
    """Wrap ``cls.name`` (method, property getter/setter, cached_property) in place.

    Only attributes defined on ``cls`` itself are replaced; for an inherited
    member a forwarding override is created on ``cls`` so that the parent class
    is untouched (a monitor of one class never changes the behaviour of another).
    """
    key = (cls.__name__, name if which == "get" else name + ".setter")
    attr = inspect.getattr_static(cls, name)
    own = name in cls.__dict__
    _installed.append((cls, name, attr if own else None))
    _HOOKS.append((cls, name, pre, post, raised, which))
    if isinstance(attr, property):
        fget, fset = attr.fget, attr.fset
        if which == "get":
            fget = _wrap(fget, key, pre, post, raised)
        else:
            if fset is None:
                raise AttributeError(f"{cls.__name__}.{name} has no setter")
            fset = _wrap(fset, key, pre, post, raised)
        new = property(fget, fset, attr.fdel, attr.__doc__)
    elif isinstance(attr, cached_property):
        # observe the computation; keep caching semantics (instance __dict__)
        new = cached_property(_wrap(attr.func, key, pre, post, raised))
        new.__set_name__(cls, name)
    elif isinstance(attr, (classmethod, staticmethod)):
        raise TypeError("class/static methods are monitored at the call site")
    else:
        new = _wrap(attr, key, pre, post, raised)
    setattr(cls, name, new)
    return key


def unhook_all():
    _HOOKS.clear()
    PROPAGATED.clear()
    while _installed:
        cls, name, orig = _installed.pop()
        if orig is None:
            try:
                delattr(cls, name)
            except AttributeError:
                pass
        else:
            setattr(cls, name, orig)


def calls(cls, name, which="get"):
    return CALLS.get((cls.__name__, name if which == "get" else name + ".setter"), 0)


def ensure_getter(cls, name, condition):
    """icontract postcondition on a property getter (``condition(self, result)``)."""
    import icontract

    attr = inspect.getattr_static(cls, name)
    own = name in cls.__dict__
    _installed.append((cls, name, attr if own else None))

    def _post(self, result):
        if busy():
            return True
        with quiet():
            condition(self, result)
        return True

    fget = icontract.ensure(_post)(attr.fget)
    setattr(cls, name, property(fget, attr.fset, attr.fdel, attr.__doc__))

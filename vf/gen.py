"""Workload generators.  Every generator returns the case and the facts that are
true by construction.  No coxeter imports (tabulated data files are read as plain JSON)."""

import itertools
import json
import math
import os
from fractions import Fraction

import numpy as np

from . import bootstrap, geom

# ---------------------------------------------------------------------------
# rigid motions
# ---------------------------------------------------------------------------


def random_rotation(rng):
    q = rng.normal(size=4)
    q /= np.linalg.norm(q)
    w, x, y, z = q
    return np.array([
        [1 - 2 * (y * y + z * z), 2 * (x * y - z * w), 2 * (x * z + y * w)],
        [2 * (x * y + z * w), 1 - 2 * (x * x + z * z), 2 * (y * z - x * w)],
        [2 * (x * z - y * w), 2 * (y * z + x * w), 1 - 2 * (x * x + y * y)],
    ])


def rot_z(t):
    c, s = math.cos(t), math.sin(t)
    return np.array([[c, -s, 0], [s, c, 0], [0, 0, 1.0]])


def random_unit(rng, d=3):
    v = rng.normal(size=d)
    return v / np.linalg.norm(v)


def diameter(P):
    P = np.asarray(P, float)
    if len(P) > 400:
        return float(np.linalg.norm(np.ptp(P, axis=0)))
    d = P[:, None, :] - P[None, :, :]
    return float(np.sqrt((d * d).sum(-1).max()))


def place(rng, P, offset_choices=(0.0, 0.1, 1.0, 10.0), rotate=True):
    """Random rigid motion: returns (P', R, t, offset ratio)."""
    P = np.asarray(P, float)
    R = random_rotation(rng) if rotate else np.eye(3)
    ratio = float(rng.choice(offset_choices))
    t = random_unit(rng) * ratio * diameter(P)
    c = P.mean(0)
    return (P - c) @ R.T + c + t, R, t, ratio


# ---------------------------------------------------------------------------
# G-convex
# ---------------------------------------------------------------------------


def _sphere_points(rng, n, mindist):
    pts = []
    tries = 0
    while len(pts) < n and tries < 20000:
        tries += 1
        p = random_unit(rng)
        if all(np.linalg.norm(p - q) >= mindist for q in pts):
            pts.append(p)
    return np.array(pts)


def convex_ellipsoid(rng, nmax=60):
    n = int(rng.integers(4, nmax + 1))
    mind = 0.9 if n <= 6 else (0.45 if n <= 14 else (0.3 if n <= 30 else 0.2))
    P = _sphere_points(rng, n, mind)
    if len(P) < 4:
        P = np.array([[1, 1, 1], [1, -1, -1], [-1, 1, -1], [-1, -1, 1.0]]) / math.sqrt(3)
    # make sure the origin is not needed: any strictly convex surface gives convex position
    kind = rng.choice(["round", "flat", "needle", "generic"])
    rmax = 100.0 if len(P) <= 14 else 10.0
    if kind == "round":
        ax = np.ones(3)
    elif kind == "flat":
        ax = np.array([1.0, 1.0, 1.0 / rng.uniform(5, rmax)])
    elif kind == "needle":
        ax = np.array([1.0, 1.0 / rng.uniform(5, rmax), 1.0 / rng.uniform(5, rmax)])
    else:
        ax = np.exp(rng.uniform(-1, 1, size=3))
    scale = float(np.exp(rng.uniform(-1.5, 1.5)))
    P = P * ax * scale
    return {"P": P, "kind": "ellipsoid-" + kind, "aspect": float(ax.max() / ax.min())}


def _hull2d_strict(pts2):
    """Indices of the strictly convex corners of planar integer/float points (monotone chain)."""
    idx = sorted(range(len(pts2)), key=lambda i: (pts2[i][0], pts2[i][1]))

    def cross(o, a, b):
        return (pts2[a][0] - pts2[o][0]) * (pts2[b][1] - pts2[o][1]) - (pts2[a][1] - pts2[o][1]) * (pts2[b][0] - pts2[o][0])

    lower, upper = [], []
    for i in idx:
        while len(lower) >= 2 and cross(lower[-2], lower[-1], i) <= 0:
            lower.pop()
        lower.append(i)
    for i in reversed(idx):
        while len(upper) >= 2 and cross(upper[-2], upper[-1], i) <= 0:
            upper.pop()
        upper.append(i)
    return lower[:-1] + upper[:-1]


def strict_hull_vertices(P):
    """Extreme points of P (drops points inside, on facets or on edges). Integer-safe."""
    P = np.asarray(P, float)
    h = geom.hull_facets(P, check=False)      # P may contain points inside facets / on edges: they are what is pruned here
    keep = set()
    for f, nrm in zip(h.facets, h.normals):
        k = int(np.argmax(np.abs(nrm)))
        ax = [a for a in range(3) if a != k]
        pts2 = [(P[i][ax[0]], P[i][ax[1]]) for i in f]
        for j in _hull2d_strict(pts2):
            keep.add(f[j])
    return sorted(keep)


def convex_lattice(rng, k=None, m=None):
    k = int(k or rng.integers(1, 4))
    grid = np.array(list(itertools.product(range(-k, k + 1), repeat=3)), dtype=float)
    for _ in range(50):
        mm = int(m or rng.integers(6, min(len(grid), 40) + 1))
        sub = grid[rng.choice(len(grid), size=mm, replace=False)]
        if np.linalg.matrix_rank(sub - sub[0]) < 3:
            continue
        v = strict_hull_vertices(sub)
        P = sub[v]
        if len(P) >= 4:
            return {"P": P, "kind": "lattice", "exact_int": True, "aspect": 1.0}
    raise RuntimeError("lattice generator failed")


def convex_polygon_2d(rng, n=None, regular=None, axis_aligned=False):
    """Convex polygon in CCW order, 2-D, roughly unit size, in strictly convex position."""
    n = int(n or rng.integers(3, 13))
    if regular is None:
        regular = rng.random() < 0.3
    if regular:
        th = np.linspace(0, 2 * np.pi, n, endpoint=False) + (0 if axis_aligned else rng.uniform(0, 2 * np.pi))
        return np.column_stack((np.cos(th), np.sin(th)))
    if axis_aligned:
        # rectangle-with-cut-corners: has exactly horizontal and vertical edges
        w, h = rng.uniform(0.5, 2), rng.uniform(0.5, 2)
        c = rng.uniform(0.1, 0.4, size=4) * min(w, h)
        pts = [(-w + c[0], -h), (w - c[1], -h), (w, -h + c[1]), (w, h - c[2]), (w - c[2], h),
               (-w + c[3], h), (-w, h - c[3]), (-w, -h + c[0])]
        return np.array(pts)
    for _ in range(100):
        gaps = rng.uniform(0.5, 1.5, size=n)
        th = np.cumsum(gaps) / gaps.sum() * 2 * np.pi + rng.uniform(0, 2 * np.pi)
        ab = np.exp(rng.uniform(-0.7, 0.7, size=2))
        xy = np.column_stack((ab[0] * np.cos(th), ab[1] * np.sin(th)))
        return xy
    raise RuntimeError


def convex_prismatic(rng):
    kind = str(rng.choice(["prism", "antiprism", "pyramid", "dipyramid", "box", "frustum"]))
    n = int(rng.integers(3, 11))
    base = convex_polygon_2d(rng, n, regular=bool(rng.random() < 0.5))
    h = float(rng.uniform(0.3, 2.5))
    z = np.zeros((len(base), 1))
    if kind == "box":
        d = np.exp(rng.uniform(-1.5, 1.5, size=3))
        P = np.array(list(itertools.product([0, 1.0], repeat=3))) * d
    elif kind == "prism":
        P = np.vstack((np.hstack((base, z)), np.hstack((base, z + h))))
    elif kind == "frustum":
        P = np.vstack((np.hstack((base, z)), np.hstack((base * rng.uniform(0.3, 0.8), z + h))))
    elif kind == "antiprism":
        th = np.linspace(0, 2 * np.pi, n, endpoint=False)
        b0 = np.column_stack((np.cos(th), np.sin(th)))
        b1 = np.column_stack((np.cos(th + np.pi / n), np.sin(th + np.pi / n)))
        P = np.vstack((np.hstack((b0, z)), np.hstack((b1, z + h))))
    elif kind == "pyramid":
        apex = np.append(base.mean(0) + rng.uniform(-0.2, 0.2, size=2), h)
        P = np.vstack((np.hstack((base, z)), apex))
    else:
        c = base.mean(0)
        P = np.vstack((np.hstack((base, z)), np.append(c, h), np.append(c, -rng.uniform(0.3, 2.5))))
    return {"P": P, "kind": kind, "aspect": 1.0}


_TAB = None


def tabulated_vertices():
    """{(family file, name): vertices} read straight from the repository's JSON data."""
    global _TAB
    if _TAB is None:
        _TAB = {}
        d = os.path.join(bootstrap.repo_root(), "coxeter", "families", "data")
        for fn in ["platonic", "archimedean", "catalan", "johnson", "prism_antiprism", "pyramid_dipyramid"]:
            with open(os.path.join(d, fn + ".json")) as f:
                for name, spec in json.load(f).items():
                    _TAB[(fn, name)] = np.array(spec["vertices"], float)
    return _TAB


def convex_case(rng, tabulated_frac=0.1):
    """One G-convex case: points in convex position under a random rigid motion and order."""
    u = rng.random()
    if u < tabulated_frac:
        tab = tabulated_vertices()
        key = sorted(tab)[int(rng.integers(len(tab)))]
        c = {"P": tab[key].copy(), "kind": "tabulated", "name": "/".join(key), "aspect": 1.0}
    elif u < 0.45:
        c = convex_ellipsoid(rng)
    elif u < 0.7:
        c = convex_lattice(rng)
    else:
        c = convex_prismatic(rng)
    P0 = c["P"]
    if c.get("exact_int") and rng.random() < 0.5:
        t = rng.integers(-30, 31, size=3).astype(float) * float(rng.choice([0, 1]))
        P, R, ratio = P0 + t, np.eye(3), float(np.linalg.norm(t) / diameter(P0))
        c["exact"] = True
    else:
        P, R, t, ratio = place(rng, P0)
        c["exact"] = False
    # hostile placement: the origin exactly on the boundary (at a vertex / on an edge line), so that
    # plane offsets are exactly zero or pure rounding noise
    u = rng.random()
    if u < 0.08:
        j = int(rng.integers(len(P)))
        P = P - P[j]
        c["origin_on_boundary"] = "vertex"
        ratio = 0.0
    elif u < 0.12:
        i, j = rng.choice(len(P), size=2, replace=False)
        P = P - (P[i] + P[j]) / 2
        c["origin_on_boundary"] = "segment-midpoint"
        ratio = 0.0
    if not c.get("exact") and rng.random() < 0.06:
        # particles given in very small or very large units (nanometres in metres ...): every C01 quantity is homogeneous
        unit = float(10 ** rng.uniform(-9, 6))
        P = P * unit
        c["unit"] = unit
    perm = rng.permutation(len(P))
    c.update({"P": P[perm], "offset_ratio": ratio, "size": diameter(P)})
    return c


# ---------------------------------------------------------------------------
# G-poly
# ---------------------------------------------------------------------------


def star_polygon(rng, n=None):
    n = int(n or rng.integers(3, 41))
    for _ in range(200):
        th = np.sort(rng.uniform(0, 2 * np.pi, size=n))
        gaps = np.diff(np.append(th, th[0] + 2 * np.pi))
        if gaps.max() >= 0.9 * np.pi or gaps.min() < 0.3 * 2 * np.pi / n:
            continue
        r = rng.uniform(0.35, 1.0, size=n)
        return np.column_stack((r * np.cos(th), r * np.sin(th)))
    th = np.linspace(0, 2 * np.pi, n, endpoint=False)
    r = rng.uniform(0.5, 1.0, size=n)
    return np.column_stack((r * np.cos(th), r * np.sin(th)))


def comb_polygon(rng, teeth=None):
    teeth = int(teeth or rng.integers(2, 8))
    w = rng.uniform(0.3, 1.0, size=2 * teeth - 1)
    x = np.concatenate(([0], np.cumsum(w)))
    hgt = rng.uniform(1.0, 3.0, size=teeth)
    pts = [(x[-1], 0.0), (x[-1], -0.5), (0.0, -0.5), (0.0, 0.0)]
    up = []
    for k in range(teeth):
        x0, x1 = x[2 * k], x[2 * k + 1]
        up += [(x0, hgt[k]), (x1, hgt[k])]
        if k < teeth - 1:
            up += [(x1, 0.2), (x[2 * k + 2], 0.2)]
    # walk: start bottom-right going CCW: (xmax,-.5) ... build explicit CCW list
    poly = [(0.0, -0.5), (x[-1], -0.5)]
    for k in reversed(range(teeth)):
        x0, x1 = x[2 * k], x[2 * k + 1]
        poly += [(x1, hgt[k]), (x0, hgt[k])]
        if k > 0:
            poly += [(x0, 0.2), (x[2 * k - 1], 0.2)]
    xy = np.array(poly, float)
    # tiny generic shear so that nothing but the intended edges is axis parallel sometimes
    if rng.random() < 0.5:
        xy = xy @ np.array([[1, rng.uniform(-0.2, 0.2)], [0, 1.0]]).T
    return xy


def spiral_polygon(rng, turns=None):
    turns = float(turns or rng.uniform(1.0, 2.5))
    m = int(rng.integers(8, 20))
    t = np.linspace(0.3, turns * 2 * np.pi, m)
    r_out = 0.3 + 0.15 * t
    r_in = r_out - 0.25 * 0.15 * 2 * np.pi
    outer = np.column_stack((r_out * np.cos(t), r_out * np.sin(t)))
    inner = np.column_stack((r_in * np.cos(t), r_in * np.sin(t)))[::-1]
    return np.vstack((outer, inner))


def lattice_polygon(rng):
    for _ in range(200):
        xy = np.round(star_polygon(rng, int(rng.integers(3, 16))) * int(rng.integers(4, 25)))
        if len(np.unique(xy, axis=0)) != len(xy):
            continue
        if not geom.polygon_is_simple_exact(xy):
            continue
        dmin, smin = geom.polygon_min_feature(xy)
        if smin < 1e-3 or dmin < 0.5:
            continue
        return xy
    return np.array([[0, 0], [4, 0], [4, 3], [1, 1.0]])


def simple_polygon_2d(rng):
    """(xy CCW, kind).  Certified simple with margin."""
    for _ in range(100):
        u = rng.random()
        if u < 0.35:
            xy, kind = star_polygon(rng), "star"
        elif u < 0.5:
            xy, kind = comb_polygon(rng), "comb"
        elif u < 0.6:
            xy, kind = spiral_polygon(rng), "spiral"
        elif u < 0.8:
            xy, kind = lattice_polygon(rng), "lattice"
        else:
            xy, kind = convex_polygon_2d(rng, axis_aligned=bool(rng.random() < 0.3)), "convex"
        size = float(np.ptp(xy, axis=0).max())
        dmin, smin = geom.polygon_min_feature(xy)
        if smin < 1e-3 or (np.isfinite(dmin) and dmin < 1e-3 * size):
            continue
        if not geom.polygon_is_simple_exact(xy):
            continue
        a, _, _ = geom.poly2d_moments(xy)
        if a < 0:
            xy = xy[::-1]
        return np.ascontiguousarray(xy), kind
    raise RuntimeError("polygon generator failed")


def is_convex_ccw(xy):
    """Every corner turns left *and* the cycle winds exactly once (a pentagram also turns left at every corner)."""
    xy = np.asarray(xy, float)
    e1 = xy - np.roll(xy, 1, axis=0)
    e2 = np.roll(xy, -1, axis=0) - xy
    cr = e1[:, 0] * e2[:, 1] - e1[:, 1] * e2[:, 0]
    if not np.all(cr > 0):
        return False
    turn = np.arctan2(cr, (e1 * e2).sum(1))
    return bool(abs(turn.sum() - 2 * np.pi) < 1e-6)


def polygon_case(rng, allow_tilt=True, kind=None, straight_frac=0.12, far_frac=0.0, far_tilted=True, unit_frac=0.0):
    """One G-poly case: 3-D vertex list, the stated normal (or None), and facts."""
    xy, k = simple_polygon_2d(rng)
    if kind is not None:
        for _ in range(50):
            if k == kind:
                break
            xy, k = simple_polygon_2d(rng)
    scale = float(np.exp(rng.uniform(-1.5, 1.5))) if k != "lattice" else 1.0
    xy = xy * scale
    # straight corners: a vertex in the middle of an edge (exactly collinear on the lattice, collinear within rounding
    # otherwise) leaves the polygon simple and planar; a third of them are rolled into the first three positions below
    straight = None
    if straight_frac and rng.random() < straight_frac and len(xy) <= 40:
        j = int(rng.integers(len(xy)))
        a, b = xy[j], xy[(j + 1) % len(xy)]
        mid = (a + b) / 2
        if k != "lattice" or np.all(mid == np.round(mid)):
            xy = np.insert(xy, j + 1, mid, axis=0)
            straight = j + 1
    n = len(xy)
    ccw_in_plane = bool(rng.random() < 0.5)
    if not ccw_in_plane:
        xy = xy[::-1]
        if straight is not None:
            straight = n - 1 - straight
    shift = int(rng.integers(n))
    if straight is not None and rng.random() < 0.4:
        shift = (straight - 1) % n           # the straight corner becomes vertex 1: the first three vertices are collinear
    xy = np.roll(xy, -shift, axis=0)
    if straight is not None:
        straight = (straight - shift) % n
    tilt = allow_tilt and rng.random() < 0.5
    V = np.column_stack((xy, np.zeros(n)))
    plane_n = np.array([0.0, 0.0, 1.0])
    if tilt:
        R = random_rotation(rng)
        if rng.random() < 0.3:
            # nearly, but not exactly, parallel to a coordinate plane: tilt of 1e-6..3e-2 rad about an in-plane axis,
            # optionally followed by a quarter turn that brings the normal near x or y instead of z
            ang = float(10 ** rng.uniform(-6, -1.5))
            ax_ = np.append(random_unit(rng, 2), 0.0)
            K = np.array([[0, -ax_[2], ax_[1]], [ax_[2], 0, -ax_[0]], [-ax_[1], ax_[0], 0]])
            R = np.eye(3) + math.sin(ang) * K + (1 - math.cos(ang)) * K @ K
            q = int(rng.integers(4))
            if q == 1:
                R = np.array([[0, 0, 1.0], [0, 1, 0], [-1, 0, 0]]) @ R
            elif q == 2:
                R = np.array([[1.0, 0, 0], [0, 0, -1], [0, 1, 0]]) @ R
            elif q == 3:
                R = np.diag([1.0, -1.0, -1.0]) @ R
        t = random_unit(rng) * float(rng.choice([0, 0.5, 3.0])) * diameter(V)
        if rng.random() < 0.12:
            # a plane whose normal has two (or three) components of exactly equal size: x = y, x = -y, y = z, x = z, x + y + z = 0.
            # The frame vectors repeat one number in two coordinates, so the tie survives rounding; the shift stays in the plane
            # and keeps the tie too.  (Code that picks "the largest component of the normal" has to pick *one* here.)
            a_ = math.sqrt(0.5)
            frames = [((a_, a_, 0.0), (0.0, 0.0, 1.0)), ((a_, -a_, 0.0), (0.0, 0.0, -1.0)), ((0.0, a_, a_), (1.0, 0.0, 0.0)),
                      ((a_, 0.0, a_), (0.0, -1.0, 0.0)), ((a_, -a_, 0.0), (math.sqrt(1 / 6), math.sqrt(1 / 6), -2 * math.sqrt(1 / 6)))]
            e1_, e2_ = (np.array(v) for v in frames[int(rng.integers(len(frames)))])
            R = np.column_stack((e1_, e2_, np.cross(e1_, e2_)))
            t = (float(rng.uniform(-2, 2)) * e1_ + float(rng.uniform(-2, 2)) * e2_) * diameter(V) * float(rng.choice([0.0, 1.0]))
            if e2_[2] in (1.0, -1.0) or e2_[0] == 1.0 or e2_[1] == -1.0:
                t = t  # in-plane shifts along e1_ repeat one number in the two tied coordinates; along e2_ they touch the third only
        V = V @ R.T + t
        plane_n = R @ plane_n
    elif rng.random() < 0.7 and k != "lattice":
        V[:, :2] += rng.uniform(-3, 3, size=2) * scale
    elif k == "lattice":
        V[:, :2] += rng.integers(-10, 11, size=2)
    unit = 1.0
    if unit_frac and k != "lattice" and rng.random() < unit_frac:
        # the same polygon in very small / very large units (every judged quantity is homogeneous in length)
        unit = float(10 ** rng.uniform(-9, -5)) if rng.random() < 0.7 else float(10 ** rng.uniform(4, 6))
        V = V * unit
    far = 0.0
    if far_frac and rng.random() < far_frac and (far_tilted or not tilt):
        # (far_tilted=False: only polygons in a plane z = const, which stay exactly planar however far they are moved)
        # the same polygon very far from the origin for its size (map coordinates, a lattice site far out): 1e5..3e6 sizes,
        # moved within its own plane (lattice polygons by whole numbers, so they stay exact)
        e1_, e2_ = (np.array([1.0, 0, 0]), np.array([0, 1.0, 0])) if not tilt else (R @ np.array([1.0, 0, 0]), R @ np.array([0, 1.0, 0]))
        ang_ = rng.uniform(0, 2 * np.pi)
        mag = diameter(V) * float(10 ** rng.uniform(5, 6.5))
        tvec = (math.cos(ang_) * e1_ + math.sin(ang_) * e2_) * mag
        if k == "lattice" and not tilt:
            tvec = np.round(tvec)
        V = V + tvec
        far = mag / diameter(V)
    # default normal of coxeter = cross(v2-v1, v0-v1) normalised; orientation about it
    mode = str(rng.choice(["default", "plus", "minus"]))
    if straight == 1:
        # no default normal is defined by three collinear vertices: the normal is stated explicitly
        mode = str(rng.choice(["plus", "minus"]))
        dn = plane_n
    else:
        dn = np.cross(V[2] - V[1], V[0] - V[1])
        dn /= np.linalg.norm(dn)
    if mode == "default":
        normal_arg, normal = None, dn
    elif mode == "plus":
        normal_arg, normal = plane_n.copy(), plane_n
    else:
        normal_arg, normal = -plane_n, -plane_n
    if normal_arg is not None and rng.random() < 0.5:
        normal_arg = normal_arg * float(rng.uniform(0.5, 3.0))  # need not be unit
    # orientation of the listed cycle about the effective normal
    ccw_about_normal = (ccw_in_plane == (np.dot(normal, plane_n) > 0))
    return {"V": V, "normal_arg": normal_arg, "normal": normal / np.linalg.norm(normal), "kind": k,
            "tilted": bool(tilt), "ccw": bool(ccw_about_normal), "straight_corner": straight,
            "convex": straight is None and is_convex_ccw(xy if ccw_in_plane else xy[::-1]),
            "size": diameter(V), "xy_plane": (not tilt), "lattice": k == "lattice" and not tilt,
            "normal_mode": mode, "far": far, "unit": unit}


# ---------------------------------------------------------------------------
# G-mesh
# ---------------------------------------------------------------------------

_CUBE_FACES = {  # axis, side -> corner offsets CCW seen from outside
    (0, 1): [(1, 0, 0), (1, 1, 0), (1, 1, 1), (1, 0, 1)],
    (0, 0): [(0, 0, 0), (0, 0, 1), (0, 1, 1), (0, 1, 0)],
    (1, 1): [(0, 1, 0), (0, 1, 1), (1, 1, 1), (1, 1, 0)],
    (1, 0): [(0, 0, 0), (1, 0, 0), (1, 0, 1), (0, 0, 1)],
    (2, 1): [(0, 0, 1), (1, 0, 1), (1, 1, 1), (0, 1, 1)],
    (2, 0): [(0, 0, 0), (0, 1, 0), (1, 1, 0), (1, 0, 0)],
}


def voxel_manifold(cells):
    cells = set(cells)
    if not cells:
        return False
    # face-connected
    todo, seen = [next(iter(cells))], set()
    while todo:
        c = todo.pop()
        if c in seen:
            continue
        seen.add(c)
        for ax in range(3):
            for s in (-1, 1):
                d = list(c)
                d[ax] += s
                if tuple(d) in cells:
                    todo.append(tuple(d))
    if seen != cells:
        return False
    # around every lattice vertex: filled octants face-connected, empty octants face-connected
    verts = {(c[0] + a, c[1] + b, c[2] + d) for c in cells for a in (0, 1) for b in (0, 1) for d in (0, 1)}
    for v in verts:
        octs = list(itertools.product((-1, 0), repeat=3))
        filled = [o for o in octs if (v[0] + o[0], v[1] + o[1], v[2] + o[2]) in cells]
        empty = [o for o in octs if o not in filled]
        for grp in (filled, empty):
            if not grp:
                continue
            todo, sn = [grp[0]], set()
            while todo:
                o = todo.pop()
                if o in sn:
                    continue
                sn.add(o)
                for p in grp:
                    if p not in sn and sum(abs(p[i] - o[i]) for i in range(3)) == 1:
                        todo.append(p)
            if len(sn) != len(grp):
                return False
    return True


VOXEL_TEMPLATES = {
    "U": [(0, 0, 0), (1, 0, 0), (2, 0, 0), (0, 1, 0), (2, 1, 0), (0, 2, 0), (2, 2, 0)],
    "C": [(0, 0, 0), (1, 0, 0), (0, 1, 0), (0, 2, 0), (1, 2, 0)],
    "stairs": [(0, 0, 0), (1, 0, 0), (2, 0, 0), (1, 0, 1), (2, 0, 1), (2, 0, 2)],
    "frame": [(x, y, 0) for x in range(3) for y in range(3) if (x, y) != (1, 1)],
    "L3d": [(0, 0, 0), (1, 0, 0), (0, 1, 0), (0, 0, 1)],
    "box": [(x, y, z) for x in range(2) for y in range(2) for z in range(1)],
    "plus": [(1, 1, 0), (0, 1, 0), (2, 1, 0), (1, 0, 0), (1, 2, 0), (1, 1, 1)],
    "bigframe": [(x, y, z) for x in range(4) for y in range(3) for z in range(1) if not (x in (1, 2) and y == 1)],
}


def voxel_cells(rng, nmax=14):
    if rng.random() < 0.4:
        name = sorted(VOXEL_TEMPLATES)[int(rng.integers(len(VOXEL_TEMPLATES)))]
        return list(VOXEL_TEMPLATES[name]), name
    for _ in range(200):
        n = int(rng.integers(3, nmax + 1))
        cells = {(0, 0, 0)}
        while len(cells) < n:
            c = list(cells)[int(rng.integers(len(cells)))]
            ax, s = int(rng.integers(3)), int(rng.choice([-1, 1]))
            d = list(c)
            d[ax] += s
            cells.add(tuple(d))
        if voxel_manifold(cells):
            return sorted(cells), "random"
    return list(VOXEL_TEMPLATES["U"]), "U"


def voxel_mesh(cells):
    """(vertices int array, faces list of 4 index lists outward CCW) of the union of unit cells."""
    cs = set(cells)
    vid, verts, faces = {}, [], []
    for c in sorted(cs):
        for (ax, side), corners in _CUBE_FACES.items():
            nb = list(c)
            nb[ax] += 1 if side else -1
            if tuple(nb) in cs:
                continue
            f = []
            for o in corners:
                p = (c[0] + o[0], c[1] + o[1], c[2] + o[2])
                if p not in vid:
                    vid[p] = len(verts)
                    verts.append(p)
                f.append(vid[p])
            faces.append(f)
    return np.array(verts, float), faces


def voxel_exact(cells):
    """Exact (Fraction) volume, centroid, inertia about the origin of the union of unit cells."""
    V = Fraction(len(cells))
    c = [sum(Fraction(2 * cell[i] + 1, 2) for cell in cells) / V for i in range(3)]
    m2 = [[Fraction(0)] * 3 for _ in range(3)]
    for cell in cells:
        cc = [Fraction(2 * cell[i] + 1, 2) for i in range(3)]
        for i in range(3):
            for j in range(3):
                m2[i][j] += cc[i] * cc[j] + (Fraction(1, 12) if i == j else 0)
    tr = m2[0][0] + m2[1][1] + m2[2][2]
    I = [[(tr if i == j else 0) - m2[i][j] for j in range(3)] for i in range(3)]
    return V, c, I


def genus_from_mesh(nv, faces):
    edges = set()
    for f in faces:
        for a, b in zip(f, f[1:] + f[:1]):
            edges.add((min(a, b), max(a, b)))
    chi = nv - len(edges) + len(faces)
    return (2 - chi) // 2


def ear_clip(xy):
    """Triangulate a simple CCW polygon (own ear clipper).  Returns index triples (CCW)."""
    xy = np.asarray(xy, float)
    idx = list(range(len(xy)))
    tris = []

    def cross(a, b, c):
        return (xy[b][0] - xy[a][0]) * (xy[c][1] - xy[a][1]) - (xy[b][1] - xy[a][1]) * (xy[c][0] - xy[a][0])

    guard = 0
    while len(idx) > 3 and guard < 10000:
        guard += 1
        m = len(idx)
        best = None
        for k in range(m):
            a, b, c = idx[k - 1], idx[k], idx[(k + 1) % m]
            cr = cross(a, b, c)
            if cr <= 0:
                continue
            ok = True
            for p in idx:
                if p in (a, b, c):
                    continue
                if cross(a, b, p) >= 0 and cross(b, c, p) >= 0 and cross(c, a, p) >= 0:
                    ok = False
                    break
            if ok:
                # prefer fat ears
                la = np.linalg.norm(xy[b] - xy[a]) * np.linalg.norm(xy[c] - xy[b])
                q = cr / la
                if best is None or q > best[0]:
                    best = (q, k)
        if best is None:
            raise RuntimeError("ear clipping failed")
        k = best[1]
        tris.append((idx[k - 1], idx[k], idx[(k + 1) % len(idx)]))
        idx.pop(k)
    tris.append(tuple(idx))
    return tris


def extrusion_mesh(xy, h):
    """Prism over a simple CCW polygon, caps triangulated: verts, faces (outward CCW)."""
    n = len(xy)
    verts = np.vstack((np.column_stack((xy, np.zeros(n))), np.column_stack((xy, np.full(n, h)))))
    tris = ear_clip(xy)
    faces = [[a + n, b + n, c + n] for (a, b, c) in tris] + [[c, b, a] for (a, b, c) in tris]
    for i in range(n):
        j = (i + 1) % n
        faces.append([i, j, j + n, i + n])
    return verts, faces


def perturbed_hull_mesh(rng, n=None):
    n = int(n or rng.integers(6, 25))
    for _ in range(200):
        P = _sphere_points(rng, n, 0.35)
        h = geom.hull_facets(P)
        # the origin must be well inside the hull, otherwise the radial perturbation is not a radial graph
        # (a first version allowed all points on one hemisphere and produced self-intersecting, inside-out meshes)
        if h.signed_dist(np.zeros((1, 3)))[0] < -0.2:
            break
        n = max(n, 8)
    faces = [list(f) for f in h.facets]
    if any(len(f) != 3 for f in faces):
        faces = [list(t) for f in faces for t in geom.fan(f)]
    r = rng.uniform(0.55, 1.45, size=len(P))
    return P * r[:, None], faces


def affine_map(rng, anisotropic=True, shear=False):
    R = random_rotation(rng)
    s = np.exp(rng.uniform(-0.8, 0.8, size=3)) if anisotropic and rng.random() < 0.5 else np.ones(3)
    g = float(np.exp(rng.uniform(-1.0, 1.0)))
    A = R @ np.diag(s * g)
    if shear and rng.random() < 0.4:
        # a shear keeps faces planar and convex and maps the exact answers in closed form like any affine map, but turns
        # the rectangles of a voxel solid into parallelograms: faces with equal side lengths that are no longer congruent
        S = np.eye(3)
        S[0, 1], S[0, 2], S[1, 2] = rng.uniform(-0.7, 0.7, size=3) * (rng.random(3) < 0.7)
        A = R @ S @ np.diag(s * g)
    return A


def aligned_map(rng):
    """Axis-aligned map: identity, power-of-two or generic positive diagonal scaling."""
    u = rng.random()
    if u < 0.4:
        return np.eye(3)
    if u < 0.7:
        return np.diag(2.0 ** rng.integers(-2, 3, size=3).astype(float))
    return np.diag(np.exp(rng.uniform(-0.8, 0.8, size=3)))


def mesh_case(rng, kinds=("voxel", "extrusion", "perturbed", "convexcopy"), aligned_frac=0.0, far_frac=0.0):
    """One G-mesh case: closed outward oriented mesh with convex faces + facts.
    With probability ``aligned_frac`` the solid stays axis aligned (no rotation, lattice
    translation) -- the degenerate case of winding-number code."""
    kind = str(rng.choice(list(kinds)))
    info = {"kind": kind}
    aligned = bool(rng.random() < aligned_frac)
    info["aligned"] = aligned
    if kind == "voxel":
        cells, tname = voxel_cells(rng)
        V0, faces = voxel_mesh(cells)
        A = aligned_map(rng) if aligned else affine_map(rng, shear=True)
        info.update({"cells": cells, "template": tname, "A": A, "genus": genus_from_mesh(len(V0), faces)})
    elif kind == "extrusion":
        for _ in range(50):
            xy, pk = simple_polygon_2d(rng)
            if len(xy) <= 16:
                break
        V0, faces = extrusion_mesh(xy, float(rng.uniform(0.3, 2.0)) * float(np.ptp(xy, axis=0).max()))
        A = aligned_map(rng) if aligned else affine_map(rng, anisotropic=False)
        info.update({"polykind": pk, "A": A, "genus": 0, "xy": xy})
    elif kind == "perturbed":
        V0, faces = perturbed_hull_mesh(rng)
        A = affine_map(rng)
        info.update({"A": A, "genus": 0})
    else:
        c = convex_case(rng, tabulated_frac=0.0)
        P = c["P"]
        if len(P) > 40:
            P = P[:40]
            P = P[strict_hull_vertices(P)]
        h = geom.hull_facets(P)
        V0, faces = P, [list(f) for f in h.facets]
        A = np.eye(3)
        info.update({"A": A, "genus": 0, "convexkind": c["kind"]})
    ratio = float(rng.choice([0.0, 0.1, 1.0, 10.0])) if kind != "convexcopy" else 0.0
    if far_frac and rng.random() < far_frac:
        ratio = float(rng.choice([100.0, 1000.0, 3000.0]))
    V = V0 @ A.T
    t = random_unit(rng) * ratio * diameter(V)
    if aligned and kind in ("voxel", "extrusion"):
        t = np.round(t)
    V = V + t
    info.update({"V": V, "faces": faces, "t": t, "V0": V0, "offset_ratio": ratio, "size": diameter(V)})
    return info


def scramble_faces(rng, nv, faces, reverse=True, relabel=True):
    """Arbitrarily permute the vertex order inside each (convex) face and relabel vertices."""
    perm = rng.permutation(nv) if relabel else np.arange(nv)
    out = []
    for f in faces:
        g = [int(perm[i]) for i in f]
        g = [g[i] for i in rng.permutation(len(g))]
        out.append(g)
    order = rng.permutation(len(out))
    out = [out[i] for i in order]
    return perm, out


# ---------------------------------------------------------------------------
# G-curved, points, q, theta
# ---------------------------------------------------------------------------


def loguniform(rng, lo, hi, size=None):
    return np.exp(rng.uniform(math.log(lo), math.log(hi), size=size))


def axes_case(rng, k):
    """k semi-axes in 1e-3..1e3 in every ordering incl. ties and near-ties."""
    mode = str(rng.choice(["generic", "tie", "neartie", "needle", "disc", "alltie"]))
    base = float(loguniform(rng, 1e-2, 1e2))
    if mode == "generic":
        ax = loguniform(rng, 1e-3, 1e3, size=k)
    elif mode == "alltie":
        ax = np.full(k, base)
    elif mode == "tie":
        ax = np.full(k, base)
        ax[int(rng.integers(k))] = base * float(loguniform(rng, 0.1, 10))
    elif mode == "neartie":
        gap = 10.0 ** rng.uniform(-15, -1, size=k)
        ax = base * (1 + gap * rng.choice([-1, 1], size=k))
        if rng.random() < 0.5:
            ax[int(rng.integers(k))] = base * float(loguniform(rng, 0.1, 10))
    elif mode == "needle":
        ax = np.full(k, base * 1e-2 * rng.uniform(0.1, 1))
        ax[int(rng.integers(k))] = base
    else:
        ax = np.full(k, base)
        ax[int(rng.integers(k))] = base * 1e-2 * rng.uniform(0.1, 1)
    ax = np.clip(ax, 1e-3, 1e3)
    ax = ax[rng.permutation(k)]
    return [float(x) for x in ax], mode


def unit_factor(rng, p=0.1):
    """1.0, or with probability p a factor that puts the shape into very small / very large units (nanometres written in
    metres, ...).  Everything the checks compare is homogeneous in length, so the oracles do not change; absolute thresholds
    (isclose / allclose defaults, hard-coded epsilons) in the code under test do."""
    if rng.random() >= p:
        return 1.0
    return float(10 ** rng.uniform(-10, -7)) if rng.random() < 0.7 else float(10 ** rng.uniform(4, 6))


def center_case(rng, size, dims=3):
    mode = str(rng.choice(["origin", "generic", "axis", "far", "near"]))
    if mode == "origin":
        c = np.zeros(3)
    elif mode == "near":
        # off the origin by a small fraction of the size (an "is it centred?" shortcut must not take this for the origin)
        c = rng.uniform(-1, 1, size=3) * size * float(10 ** rng.uniform(-4, -1))
    elif mode == "axis":
        c = np.zeros(3)
        c[int(rng.integers(dims))] = rng.uniform(-5, 5) * size
    elif mode == "generic":
        c = rng.uniform(-3, 3, size=3) * size
    else:
        c = rng.uniform(5, 20, size=3) * size * rng.choice([-1, 1], size=3)
    if dims == 2:
        c[2] = 0.0
    return c, mode


INDEX_FORMS = ("int64", "int32", "lists", "uint32", "uint8", "uint64", "int16", "lists", "lists")


def index_form(rng, faces, nv):
    """The face lists in one of the index types a caller's mesh may hold them in (a uint32 index buffer, int lists ...):
    (label, faces).  Same faces, same solid; only the integer type of the indices differs."""
    form = INDEX_FORMS[int(rng.integers(len(INDEX_FORMS)))]
    if form == "lists" or (form == "uint8" and nv > 255):
        return "lists", [[int(x) for x in f] for f in faces]
    return form, [np.array([int(x) for x in f], dtype=form) for f in faces]


def centre_form(rng, cen, size):
    """The centre of a curved shape as a caller may hand it over: (centre as float array, constructor argument or None
    for "leave it out", label).  Mostly a float array; a list of Python ints when whole numbers are a fair position for a
    shape of that size; sometimes not at all (the documented default, the origin)."""
    u = rng.random()
    if u < 0.1:
        return np.zeros(3), None, "default"
    if u < 0.28 and size >= 0.3:
        c = np.rint(cen)
        return c, [int(x) for x in c], "python-ints"
    if u < 0.36:
        return np.array(cen, float), tuple(float(x) for x in cen), "tuple"
    return cen, cen, "float-array"


# ---------------------------------------------------------------------------
# exactly representable extreme solids (dyadic coordinates): truth by integer arithmetic
# ---------------------------------------------------------------------------

def convex_exact_extreme(rng, kind=None):
    """A convex solid nearer to degeneracy than a float oracle can judge, with coordinates that are exact dyadic rationals,
    so that the truth comes from integer arithmetic (geom.hull_exact_int, geom.solid_exact_fraction):

    * ``low-apex``: a box with a vertex raised above one or more of its faces by 2^-36 .. 2^-13 of its size - facets
      that are almost, but not, coplanar (dihedral 1e-11 .. 1e-4 rad);
    * ``needle`` / ``plate``: a small lattice polytope stretched by 2^10 .. 2^20 along one axis (needle) or two (plate);
    * ``near-symmetric``: a box or an octahedron (symmetric about the coordinate planes) taken through the linear map
      I + 2^-k A (k = 18 .. 40, A a small integer matrix with zero diagonal): a solid turned / sheared off its symmetric
      position by 4e-6 .. 1e-12 - its products of inertia are that small a fraction of the moments, and not zero.

    Returns P (float64, exactly Pint / 2^e), Pint (Python ints), e."""
    from . import geom

    kind = kind or ("near-symmetric" if rng.random() < 0.3 else
                    ("low-apex" if rng.random() < 0.5 else ("needle" if rng.random() < 0.6 else "plate")))
    for _ in range(200):
        if kind == "near-symmetric":
            e = 44
            k = int(rng.integers(18, 41))
            half = [int(h) << e for h in rng.integers(1, 6, size=3)]
            if rng.random() < 0.6:
                base = [(sx * half[0], sy * half[1], sz * half[2]) for sx in (-1, 1) for sy in (-1, 1) for sz in (-1, 1)]
            else:
                base = [tuple(sg * half[t] if u == t else 0 for u in range(3)) for t in range(3) for sg in (-1, 1)]
            A = [[0 if r == c_ else int(rng.integers(-3, 4)) for c_ in range(3)] for r in range(3)]
            if not any(any(r) for r in A):
                A[0][2] = 1
            pts = [tuple(p[r] + sum(A[r][c_] * (p[c_] >> k) for c_ in range(3)) for r in range(3)) for p in base]
        elif kind == "low-apex":
            e = int(rng.integers(13, 37))
            half = [int(h) << e for h in rng.integers(1, 4, size=3)]
            pts = [tuple(sx * half[0] if t == 0 else (sy * half[1] if t == 1 else sz * half[2]) for t in range(3))
                   for sx in (-1, 1) for sy in (-1, 1) for sz in (-1, 1)]
            nf = int(rng.integers(1, 4))
            for f in rng.choice(6, size=nf, replace=False):
                ax, sg = int(f) // 2, (1 if f % 2 else -1)
                m = int(rng.integers(1, 256))
                o1, o2 = [t for t in range(3) if t != ax]
                p = [0, 0, 0]
                p[ax] = sg * (half[ax] + m)
                # anywhere well inside the face (on the 1/8 grid of the face), often its centre
                if rng.random() < 0.5:
                    p[o1] = int(rng.integers(-5, 6)) * (half[o1] >> 3)
                    p[o2] = int(rng.integers(-5, 6)) * (half[o2] >> 3)
                pts.append(tuple(p))
        else:
            e = 0
            base = convex_lattice(rng, k=2, m=int(rng.integers(6, 13)))["P"].astype(int)
            k1 = int(rng.integers(10, 21))
            S = [1, 1, 1]
            axes = list(rng.permutation(3))
            S[axes[0]] = 1 << k1
            if kind == "plate":
                S[axes[1]] = 1 << int(rng.integers(max(10, k1 - 3), k1 + 1))
            pts = [tuple(int(p[t]) * S[t] for t in range(3)) for p in base]
        if len(pts) > 14:
            continue
        # exact signed permutation of the axes and an exact translation
        perm = list(rng.permutation(3))
        sign = [int(x) for x in rng.choice([-1, 1], size=3)]
        if np.prod(sign) * (1 if perm in ([0, 1, 2], [1, 2, 0], [2, 0, 1]) else -1) < 0:
            sign[0] = -sign[0]
        tr = [0, 0, 0] if rng.random() < 0.5 else [int(x) << max(e - 1, 0) for x in rng.integers(-6, 7, size=3)]
        pts = [tuple(sign[t] * p[perm[t]] + tr[t] for t in range(3)) for p in pts]
        try:
            facets, normals = geom.hull_exact_int(pts)
        except geom.DegenerateInput:
            continue
        order = rng.permutation(len(pts))
        pts = [pts[i] for i in order]
        P = np.array([[float(x) for x in p] for p in pts]) / float(1 << e)
        if not all(int(P[i][t] * (1 << e)) == pts[i][t] for i in range(len(pts)) for t in range(3)):
            continue
        return {"P": P, "Pint": pts, "e": e, "kind": "exact-" + kind}
    raise RuntimeError("exact extreme generator failed")

"""C03 -- Mutable shapes stay coherent under any history of mutations.

Monitor: class invariant evaluated after every public mutating call of a history:
the canonical fingerprint of all public observables of the mutated object (reflection;
is_inside on a probe cloud, form factor on fixed q, face areas, dihedrals, edges,
neighbours, normals, balls ...) equals the fingerprint of ``type(obj)(current construction
data)``.  Exception atomicity: a call that raises must leave the bitwise state (or, failing
that, every observable) as it was.  ``diagonalize_inertia``: the labelled map old->new
vertices is a rotation with det +1 and the resulting inertia tensor is diagonal.
Histories: exhaustive over the reflected operation alphabet up to a bounded depth, plus
random walks; a violation is attributed to the first operation after which the invariant
fails."""

import copy
import itertools
import random
import warnings

import numpy as np

from .. import bases, bootstrap, contracts, fingerprint as fpr, gen, geom
from .c16 import deep_state, state_diff_keys, SCRATCH

PROPERTY = "C03"
RULE = ("Operation alphabet by reflection on each vertex-based class: every setter (targets x0.37 and x2.9 in length, centroid/center to "
        "a new point, rounding radius x0.5/x2/0), diagonalize_inertia, merge_faces, sort_faces, to_hoomd, reads that move the object "
        "(inertia_tensor), and naturally failing operations (targets 0/-1/nan, circum-/in-ball radius on shapes without one, merge/sort "
        "on faces_are_convex=False).  Quick: exhaustive depth 1 (full alphabet) and depth 2 (one target per setter) from 1-2 chiral "
        "off-origin bases per class + random walks of length 30; thorough: all bases, depth 3 on a reduced alphabet, more walks.  "
        "Non-trivial = every sequence; distinct = SHA-1 of (class, base, sequence).")
ASSUMPTIONS = ["the invariant is differential (mutated vs. fresh object, both computed by coxeter), so formula errors of C01/C02/C04 cancel",
               "individual planar moments of tilted polygons are frame dependent and excluded; minimal balls compared at 1e-6 (miniball)",
               "no artificial fault injection: only naturally failing operations provide the exception events"]
ANCHORS = ["coxeter.shapes.convex_polyhedron:ConvexPolyhedron._rescale", "coxeter.shapes.convex_polyhedron:ConvexPolyhedron.centroid",
           "coxeter.shapes.convex_polyhedron:ConvexPolyhedron.diagonalize_inertia", "coxeter.shapes.polyhedron:Polyhedron.diagonalize_inertia",
           "coxeter.shapes.polyhedron:Polyhedron.merge_faces", "coxeter.shapes.polyhedron:Polyhedron.sort_faces",
           "coxeter.shapes.polyhedron:Polyhedron.to_hoomd", "coxeter.shapes.polyhedron:Polyhedron._rescale",
           "coxeter.shapes.polygon:Polygon.to_hoomd", "coxeter.shapes.convex_spheropolyhedron:ConvexSpheropolyhedron._rescale",
           "coxeter.shapes.convex_spheropolygon:ConvexSpheropolygon._rescale"]
REQUIRED_MONITORS = ["coherent-after-op", "exception-atomicity", "diagonalize:proper-rotation", "diagonalize:tensor-diagonal"]
CLASSES = ["ConvexPolyhedron", "Polyhedron", "ConvexSpheropolyhedron", "Polygon", "ConvexPolygon", "ConvexSpheropolygon"]
LOOSE = {"minimal_bounding_sphere", "minimal_bounding_sphere_radius", "minimal_bounding_circle", "minimal_bounding_circle_radius"}
WATCHDOG = {"quick": 1800, "thorough": 14400}
_plan = {}


def dim_of(name):
    return 3 if name == "volume" else (2 if name in ("surface_area", "area") else 1)


def alphabet(cs, cls, reduced=False):
    getters, setters, methods = fpr.members(cls)
    A = []
    for s in setters:
        if s in ("centroid", "center"):
            A.append(("move", s, None))
            if not reduced:
                # the same move with the target in the forms a caller may hold it in: a row of the shape's own vertex array
                # (a view that the move itself rewrites) and a position buffer that the caller reuses afterwards
                A.append(("move-view", s, None))
                A.append(("move-buffer", s, None))
            continue
        if s == "radius" and cls.__name__.startswith("ConvexSphero"):
            A.append(("set", s, 0.5))
            if not reduced:
                A.append(("set", s, 2.0))
                A.append(("abs", s, 0.0))
            continue
        A.append(("set", s, 0.37))
        if not reduced:
            A.append(("set", s, 2.9))
    for m in ("diagonalize_inertia", "merge_faces", "sort_faces", "to_hoomd"):
        if m in methods or m in fpr.MUTATORS and hasattr(cls, m):
            A.append(("call", m, None))
    if "inertia_tensor" in getters:
        A.append(("read", "inertia_tensor", None))
    # the core of a spheropolytope is handed out as an object of its own: resizing / moving it is a mutation of the shape
    core = {"ConvexSpheropolyhedron": ("polyhedron", ("volume", "surface_area")), "ConvexSpheropolygon": ("polygon", ("area", "perimeter"))}.get(cls.__name__)
    if core:
        A.append(("core-set", core[1][0], 0.6))
        A.append(("core-move", "centroid", None))
        if not reduced:
            A.append(("core-set", core[1][1], 1.7))
    # naturally failing operations
    for s in setters:
        if s in ("centroid", "center"):
            continue
        if reduced and s not in ("volume", "area", "radius", "surface_area", "perimeter"):
            continue
        for bad in ((-1.0,) if reduced else (-1.0, 0.0, float("nan"), float("inf"))):
            if s == "radius" and cls.__name__.startswith("ConvexSphero") and (bad == 0.0 or bad == float("inf")):
                continue
            A.append(("abs", s, bad))
    return A


def base_list(cs, tier):
    B = bases.base_shapes(cs)

    def nonconvex_flag():
        V, faces = bases.u_mesh()
        return cs.Polyhedron(V, [list(f) for f in faces], faces_are_convex=False)

    def warped():
        # a triangulated, rotated box whose corners carry coordinate noise of 2e-7 of its size (a mesh that went through single
        # precision): neighbouring triangles are coplanar within merge_faces' tolerances but not exactly, so what a merged
        # face's plane *is* has to come from the current vertices and faces - the only thing a fresh object has
        P = bases.convex_points("box")
        h = geom.hull_facets(P)
        tri = [list(t) for f in h.facets for t in geom.fan(list(f))]
        r = np.random.default_rng(20240607)
        R = gen.random_rotation(r)
        Pw = (P + r.uniform(-1, 1, size=P.shape) * 2e-7 * float(np.ptp(P, axis=0).max())) @ R.T
        return cs.Polyhedron(Pw, tri)

    B["Polyhedron"] = B["Polyhedron"] + [("U-voxel-noflag", nonconvex_flag), ("box-triangulated-warped", warped)]
    # the same chiral solid given in very small units (a 100 nm particle in metres): absolute guards must not bite
    B["ConvexPolyhedron"] = B["ConvexPolyhedron"] + [("chiral7-nano", lambda: cs.ConvexPolyhedron(bases.convex_points("chiral7") * 1e-7))]
    if tier == "quick":
        keep = {"ConvexPolyhedron": ["chiral7", "box", "chiral7-nano"], "Polyhedron": ["chiral7", "box-triangulated-warped", "U-voxel", "U-voxel-noflag", "box-triangulated"],
                "ConvexSpheropolyhedron": ["chiral7"], "Polygon": ["comb-ccw", "star-cw-tilted"], "ConvexPolygon": ["pentagon-tilted", "kite-xy"],
                "ConvexSpheropolygon": ["quad-xy-r0.4"]}
        return {c: [(l, f) for (l, f) in B[c] if l in keep[c]] for c in CLASSES}
    return {c: B[c] for c in CLASSES}


def plan(tier):
    if tier not in _plan:
        bootstrap.ensure()
        import coxeter.shapes as cs

        BL = base_list(cs, tier)
        out = []
        for cname in CLASSES:
            cls = getattr(cs, cname)
            full, red = alphabet(cs, cls), alphabet(cs, cls, reduced=True)
            for bi in range(len(BL[cname])):
                out.append(("depth1", cname, bi, None))
                d2 = BL[cname][:2] if tier == "quick" else BL[cname]     # depth 2 on the first two bases in the quick tier
                if bi < len(d2):
                    for ai in range(len(red)):
                        out.append(("depth2", cname, bi, ai))
        # solids that already sit in their principal axes (diagonal tensor about the origin), chiral, with the three principal
        # moments in each of the six possible orders along x, y, z, at the origin and pushed out along one axis: reorienting
        # them is a pure relabelling of axes, which is a proper rotation only for half of the orders
        for cname in ("ConvexPolyhedron", "Polyhedron"):
            for pi in range(6):
                for shift in (None, 0, 1, 2):
                    out.append(("aligned", cname, (pi, shift), None))
        nw = 48 if tier == "quick" else 1200
        for w in range(nw):
            out.append(("walk", CLASSES[w % len(CLASSES)], w, None))
        if tier == "thorough":
            for cname in CLASSES:
                red = alphabet(cs, getattr(cs, cname), reduced=True)
                for bi in range(min(2, len(BL[cname]))):
                    for ai in range(len(red)):
                        for aj in range(0, len(red), 2):
                            out.append(("depth3", cname, bi, (ai, aj)))
        _plan[tier] = out
    return _plan[tier]


def ncases(tier):
    return len(plan(tier))


def aligned_solid(cs, cname, pi, shift):
    """Rhombic disphenoid (a,b,c),(a,-b,-c),(-a,b,-c),(-a,-b,c): chiral, D2-symmetric, so its inertia tensor about the origin is
    diagonal in the coordinate frame; (a,b,c) runs over the six orders of (1,2,3); optionally pushed out along one axis."""
    a, b, c = list(itertools.permutations((1.0, 2.0, 3.0)))[pi]
    P = np.array([[a, b, c], [a, -b, -c], [-a, b, -c], [-a, -b, c]]) * 0.7
    if shift is not None:
        t = np.zeros(3)
        t[shift] = 9.5
        P = P + t
    if cname == "ConvexPolyhedron":
        return cs.ConvexPolyhedron(P)
    h = geom.hull_facets(P)
    return cs.Polyhedron(P, [list(f) for f in h.facets], faces_are_convex=True)


# ---------------------------------------------------------------------------
def opname(op):
    kind, name, val = op
    if kind == "set":
        return f"{name}.setter(x{val})"
    if kind == "abs":
        return f"{name}.setter({val})"
    if kind == "move":
        return f"{name}.setter(move)"
    if kind in ("move-view", "move-buffer"):
        return f"{name}.setter({kind})"
    if kind == "read":
        return f"read:{name}"
    if kind == "core-set":
        return f"core.{name}.setter(x{val})"
    if kind == "core-move":
        return "core.centroid.setter(move)"
    return name


def mechname(op):
    kind, name, val = op
    if kind in ("set", "move", "move-view", "move-buffer"):
        return name + ".setter"
    if kind == "abs":
        return f"{name}.setter(bad-target)" if not (val == 0.0 and name == "radius") else name + ".setter"
    if kind == "read":
        return "read:" + name
    if kind in ("core-set", "core-move"):
        return "core." + name + ".setter"
    return name


def apply_op(obj, op):
    """-> ('ok', None) | ('raised', exc) | ('n/a', reason).  Runs with monitors quiet: the monitor is the caller."""
    kind, name, val = op
    with warnings.catch_warnings():
        warnings.simplefilter("ignore")
        try:
            if kind == "set":
                try:
                    cur = getattr(obj, name)
                except (NotImplementedError, ImportError):
                    return "n/a", "not provided"
                except Exception as e:
                    # property does not exist for this shape (e.g. no circumsphere): the setter must raise too
                    target = 1.0
                    try:
                        setattr(obj, name, target)
                    except Exception as e2:
                        return "raised", e2
                    return "ok-unexpected", e
                setattr(obj, name, float(cur) * float(val) ** dim_of(name))
            elif kind == "abs":
                setattr(obj, name, val)
            elif kind == "move":
                try:
                    cur = np.asarray(getattr(obj, name), float)
                except (NotImplementedError, ImportError):
                    return "n/a", "not provided"
                size, _ = fpr.length_scale(obj)
                setattr(obj, name, cur + np.array([0.6, -1.1, 0.45]) * (size / 3.0))     # a move of the order of the shape's size
            elif kind in ("move-view", "move-buffer"):
                try:
                    cur = np.asarray(getattr(obj, name), float)
                except (NotImplementedError, ImportError):
                    return "n/a", "not provided"
                if kind == "move-view":
                    V = obj.vertices
                    setattr(obj, name, V[len(V) // 2])            # a view into the array that the move shifts
                else:
                    size, _ = fpr.length_scale(obj)
                    buf = cur + np.array([-0.4, 0.9, 0.7]) * (size / 3.0)
                    setattr(obj, name, buf)
                    buf += 3.3 * size                              # the caller moves on with its buffer
                    buf[:] = np.nan
            elif kind == "read":
                getattr(obj, name)
            elif kind in ("core-set", "core-move"):
                core = obj.polyhedron if hasattr(obj, "polyhedron") else obj.polygon
                if kind == "core-set":
                    setattr(core, name, float(getattr(core, name)) * float(val) ** dim_of(name))
                else:
                    size, _ = fpr.length_scale(obj)
                    step = np.array([0.6, -1.1, 0.45]) * (size / 3.0)
                    if not fpr.is3d(obj):
                        n = np.asarray(core.normal, float)
                        step = step - n * float(step @ n)
                    core.centroid = np.asarray(core.centroid, float) + step
            else:
                getattr(obj, name)()
        except (NotImplementedError, ImportError):
            return "n/a", "not provided"
        except Exception as e:
            return "raised", e
    return "ok", None


def twin_pair(cs, cname):
    """Two objects of the class built from the very same argument objects (one vertex array, one list of face arrays, one
    0-d radius): what a caller does who instantiates a template twice.  Whatever is done to one of them afterwards, the
    other one must go on describing its own current data."""
    def both(make):
        return make(), make()

    if cname == "Polyhedron":
        P = bases.convex_points("prism5").copy()
        h = geom.hull_facets(P)
        # faces as index arrays whose vertices are *not* listed in sequential order around the face (two entries swapped, some
        # faces reversed): the documented faces_are_convex=True + sort_faces route
        F = []
        for k_, f in enumerate(h.facets):
            g = list(f)[::-1] if k_ % 2 else list(f)
            if len(g) > 3:
                g[1], g[2] = g[2], g[1]
            F.append(np.array(g))
        return both(lambda: cs.Polyhedron(P, F, faces_are_convex=True))
    if cname == "ConvexPolyhedron":
        P = bases.convex_points("chiral7").copy()
        return both(lambda: cs.ConvexPolyhedron(P))
    if cname == "ConvexSpheropolyhedron":
        P, r = bases.convex_points("chiral7").copy(), np.array(0.3)
        return both(lambda: cs.ConvexSpheropolyhedron(P, r))
    kind = {"Polygon": "comb-ccw", "ConvexPolygon": "pentagon-tilted", "ConvexSpheropolygon": "quad-xy"}[cname]
    V, n = bases.polygons(kind)
    V, n = np.array(V, float), np.array(n, float)
    if cname == "ConvexSpheropolygon":
        r = np.array(0.4)
        return both(lambda: cs.ConvexSpheropolygon(V, r, normal=n))
    return both(lambda: getattr(cs, cname)(V, normal=n))


def vertex_map_det(V0, V1):
    """Best linear map M with (V1-c1) = (V0-c0) M ; returns (det M, orthogonality defect)."""
    a, b = V0 - V0.mean(0), V1 - V1.mean(0)
    M, *_ = np.linalg.lstsq(a, b, rcond=None)
    if np.linalg.matrix_rank(a) < 3:
        return None, None
    return float(np.linalg.det(M)), float(np.abs(M.T @ M - np.eye(3)).max())


class Monitor:
    """Invariant-at-a-hook for one object: call ``step(op)`` instead of the bare operation."""

    def __init__(self, rec, cname, blabel, obj):
        self.rec, self.cname, self.blabel, self.obj = rec, cname, blabel, obj
        self.history = []
        self.dead = False     # after the first incoherent state later operations are not judged again
        # memoised members are read before the history starts so that a stale cache is observable
        with contracts.quiet():
            fpr.observe(obj, light=True)

    def info(self, **kw):
        return dict({"class": self.cname, "base": self.blabel, "history": [opname(o) for o in self.history]}, **kw)

    def coherent(self, op, what="lags-behind-geometry:"):
        rec, obj = self.rec, self.obj
        random.seed(777)
        np.random.seed(777)
        try:
            fr = fpr.fresh(obj)
        except Exception as e:
            rec.violation("coherent-after-op", f"{self.cname}.{mechname(op)}/fresh-construction-from-current-data-fails-{type(e).__name__}",
                          lambda: self.info(exc=repr(e)[:200]))
            return False
        fa = fpr.observe(obj)
        random.seed(777)
        np.random.seed(777)
        fb = fpr.observe(fr)
        size, L = fpr.length_scale(obj)
        skip = set()
        if not fpr.is3d(obj):
            with contracts.quiet():
                n = np.asarray(obj.normal, float)
            if abs(abs(n[2]) - 1) > 1e-12:
                # in-plane frame of a tilted polygon comes from a degenerate Kabsch problem (flips with the last bit)
                skip.add("planar_moments_inertia")
                skip.add("distance_to_surface")
        loose = {k: fa[k] for k in LOOSE if k in fa}
        diffs = fpr.compare({k: v for k, v in fa.items() if k not in LOOSE}, {k: v for k, v in fb.items() if k not in LOOSE},
                            L, 1e-9, fpr.is3d(obj), skip=skip)
        diffs += fpr.compare(loose, {k: fb[k] for k in LOOSE if k in fb}, L, 1e-6, fpr.is3d(obj))
        names = sorted({d[0] for d in diffs})
        rec.check("coherent-after-op", not diffs, f"{self.cname}.{mechname(op)}/{what}" + ",".join(names[:4]),
                  lambda: self.info(diffs=diffs[:8], vertices=np.asarray(obj.vertices)))
        return not diffs

    def step(self, op):
        rec, obj = self.rec, self.obj
        before = deep_state(obj)
        with contracts.quiet():
            V0 = np.array(obj.vertices, float)
            fp_before = None
            outcome, exc = apply_op(obj, op)
        self.history.append(op)
        if outcome == "n/a":
            rec.note(f"{self.cname}.{op[1]}: not provided")
            return True
        if self.dead:
            return False
        if outcome == "raised":
            after = deep_state(obj)
            changed = [k for k in state_diff_keys(before, after) if k not in SCRATCH]
            ok = not changed
            if changed:
                # bitwise state differs: is any observable different from a fresh object of the *previous* data?
                with contracts.quiet():
                    V1 = np.array(obj.vertices, float)
                ok = False
            rec.check("exception-atomicity", ok, f"{self.cname}.{mechname(op)}/raises-{type(exc).__name__}-and-leaves-state-changed:" + ",".join(changed[:3]),
                      lambda: self.info(exc=repr(exc)[:200], changed_attributes=changed))
            if not ok:
                self.dead = True
                return False
            return True
        if outcome == "ok-unexpected":
            rec.violation("coherent-after-op", f"{self.cname}.{mechname(op)}/setter-succeeds-although-getter-raises", lambda: self.info(getter_exc=repr(exc)[:200]))
        with contracts.quiet():
            if op == ("call", "diagonalize_inertia", None) and fpr.is3d(obj):
                V1 = np.array(obj.vertices, float)
                det, defect = vertex_map_det(V0, V1)
                if det is not None:
                    rec.check("diagonalize:proper-rotation", defect <= 1e-8 and det > 0,
                              f"{self.cname}.diagonalize_inertia/" + ("mirrors-the-shape" if det < 0 else "not-a-rigid-rotation"),
                              lambda: self.info(det=det, orthogonality_defect=defect))
                try:
                    I = np.asarray(fpr.fresh(obj).inertia_tensor, float)
                    off = np.abs(I - np.diag(np.diag(I))).max()
                    rec.check("diagonalize:tensor-diagonal", off <= 1e-8 * np.abs(np.diag(I)).max(),
                              f"{self.cname}.diagonalize_inertia/inertia-tensor-not-diagonal", lambda: self.info(inertia=I))
                except Exception:
                    pass
            ok = self.coherent(op)
        if not ok:
            self.dead = True
        return ok


def setup(rec, tier):
    import coxeter.shapes as cs

    return {"cs": cs, "BL": base_list(cs, tier)}


def run_case(i, rng, rec, tier, state):
    cs = state["cs"]
    kind, cname, bi, ai = plan(tier)[i]
    cls = getattr(cs, cname)
    rec.cls(kind)
    rec.cls(cname)
    if kind == "aligned":
        pi, shift = bi
        blabel = f"disphenoid-principal-axes-order{pi}" + ("" if shift is None else f"-pushed-along-{'xyz'[shift]}")
        M = Monitor(rec, cname, blabel, aligned_solid(cs, cname, pi, shift))
        if M.step(("call", "diagonalize_inertia", None)):
            M.step(("call", "diagonalize_inertia", None))
        rec.nontriv(cname, blabel, "diagonalize_inertia x2")
        return
    if kind == "depth1":
        blabel, ctor = state["BL"][cname][bi]
        for op in alphabet(cs, cls):
            M = Monitor(rec, cname, blabel, ctor())
            M.step(op)
            rec.nontriv(cname, blabel, opname(op))
        if bi == 0:
            # two objects built from the same argument objects: every operation on one, then the *other* is judged
            rec.cls("twin-built-from-the-same-arguments")
            for op in alphabet(cs, cls):
                if op[0] == "read":
                    continue
                try:
                    with contracts.quiet():
                        A_, B_ = twin_pair(cs, cname)
                except Exception as e:
                    rec.note("twin pair not constructible: " + type(e).__name__)
                    break
                MB = Monitor(rec, cname, "twin-of-the-operated-object", B_)
                with contracts.quiet():
                    apply_op(A_, op)
                MB.history = [op]
                MB.coherent(op, what="object-built-from-the-same-arguments-no-longer-describes-itself:")
        rec.sample({"kind": kind, "class": cname, "base": blabel, "alphabet": [opname(o) for o in alphabet(cs, cls)][:12]})
        return
    if kind in ("depth2", "depth3"):
        blabel, ctor = state["BL"][cname][bi]
        red = alphabet(cs, cls, reduced=True)
        first = [red[ai]] if kind == "depth2" else [red[ai[0]], red[ai[1]]]
        M0 = Monitor(rec, cname, blabel, ctor())
        for op in first:
            if not M0.step(op):
                return        # attributed to the first failing operation; later ones are not counted again
        for op2 in red:
            M = Monitor(rec, cname, blabel, copy.deepcopy(M0.obj))
            M.history = list(M0.history)
            M.step(op2)
            rec.nontriv(cname, blabel, [opname(o) for o in M.history])
        if i % 40 == 0:
            rec.sample({"kind": kind, "class": cname, "base": blabel, "prefix": [opname(o) for o in first], "second_ops": len(red)})
        return
    # random walk of length 30 over the full alphabet
    BL = state["BL"][cname]
    blabel, ctor = BL[int(rng.integers(len(BL)))]
    A = alphabet(cs, cls)
    M = Monitor(rec, cname, blabel, ctor())
    for _ in range(30):
        op = A[int(rng.integers(len(A)))]
        if op[0] == "set":
            # keep the walk inside the supported size range
            size, _ = fpr.length_scale(M.obj)
            if size > 50 and op[2] > 1 or size < 0.02 and op[2] < 1:
                continue
        if not M.step(op):
            break
    rec.nontriv(cname, blabel, [opname(o) for o in M.history])
    if i % 10 == 0:
        rec.sample({"kind": "walk", "class": cname, "base": blabel, "history": [opname(o) for o in M.history][:30]})

"""C09 -- Results are covariant under rotation, translation, scaling and relabelling.

Relational monitor over two recorded executions: every public query (the reflected
fingerprint of vf.fingerprint plus is_inside / form factor / distance_to_surface with
transformed arguments) is evaluated on ``x`` and on ``g(x)``; the record of ``x`` is pushed
through the transformation law of each member (length*s, area*s^2, volume*s^3, points ->
sRp+t, inertia -> s^5 R Ic R^T + parallel axis of the transformed mass, normals -> Rn,
plane offsets, balls, dimensionless unchanged, F(q) -> s^3 F(s R^T q) e^{-iq.t}, index
structures through the relabelling) and joined with the record of ``g(x)``, including "one
raises and the other does not".  Power-of-two scale factors isolate absolute-threshold
effects from rounding."""

import math
import random
import warnings

import numpy as np

from .. import contracts, fingerprint as fpr, gen, geom

PROPERTY = "C09"
RULE = ("Shapes of the six vertex-based classes from G-convex / G-mesh / G-poly (axis-aligned and generic) x transformations: proper "
        "rotation, translation up to 10 diameters, uniform scale 1e-3..1e3 (half of them exact powers of two), vertex permutation "
        "(convex classes), face-cycle rotation + vertex relabelling (general classes) and compositions.  Non-trivial = every "
        "(shape, g) with g != identity; distinct = SHA-1 of shape + g.")
ASSUMPTIONS = ["tolerances are those of C01-C13 evaluated in the frame of g(x) (1e-8 L^k; minimal balls 1e-6)",
               "existence of circum-/in-balls is compared only when the harness's own fit is clear (defect < 1e-9 or > 1e-2)",
               "individual planar moments and distance_to_surface are compared only when g contains no out-of-plane rotation"]
ANCHORS = ["coxeter.extern.polytri.polytri:triangulate", "coxeter.shapes.polygon:Polygon.__init__",
           "coxeter.shapes.polyhedron:Polyhedron.circumsphere", "coxeter.shapes.polyhedron:Polyhedron.insphere",
           "coxeter.shapes.polygon:Polygon.circumcircle", "coxeter.shapes.polygon:Polygon.incircle",
           "coxeter.shapes.convex_polyhedron:ConvexPolyhedron._combine_simplices", "coxeter.shapes.polygon:_is_simple"]
REQUIRED_MONITORS = ["covariance", "is_inside-covariance", "form-factor-covariance", "construct-g(x)", "distance_to_surface-covariance"]
REQUIRED_CLASSES = ["g:rotation", "g:translation", "g:scale-small", "g:scale-large", "g:permutation", "ConvexPolyhedron", "Polyhedron",
                    "Polygon", "ConvexPolygon", "ConvexSpheropolygon", "ConvexSpheropolyhedron"]
LOOSE = {"minimal_bounding_sphere", "minimal_bounding_sphere_radius", "minimal_bounding_circle", "minimal_bounding_circle_radius"}
EXIST = {"circumsphere", "circumsphere_radius", "insphere", "insphere_radius", "circumcircle", "circumcircle_radius", "incircle", "incircle_radius"}


def ncases(tier):
    return 360 if tier == "quick" else 7000


# ---------------------------------------------------------------------------
class G:
    def __init__(self, rng, size, allow_rot=True, inplane_normal=None):
        kinds = []
        self.R = np.eye(3)
        self.s = 1.0
        self.t = np.zeros(3)
        u = rng.random()
        if allow_rot and u < 0.6:
            if inplane_normal is not None and rng.random() < 0.5:
                # rotation about the polygon normal (keeps an xy polygon in the xy-plane)
                a = rng.uniform(0, 2 * np.pi)
                self.R = _axis_rot(inplane_normal, a)
                self.inplane_angle = a
                kinds.append("rotation-inplane")
            else:
                self.R = gen.random_rotation(rng)
                kinds.append("rotation")
        if rng.random() < 0.6:
            if rng.random() < 0.5:
                self.s = float(2.0 ** rng.integers(-10, 11))
            else:
                self.s = float(10 ** rng.uniform(-3, 3))
            if self.s != 1.0:
                kinds.append("scale-small" if self.s < 1 else "scale-large")
        if rng.random() < 0.6:
            # up to 10 diameters of the *transformed* shape
            self.t = gen.random_unit(rng) * float(rng.choice([0.1, 1.0, 10.0])) * size * self.s
            kinds.append("translation")
        self.kinds = kinds
        self.perm = None

    def pt(self, P):
        return self.s * np.asarray(P, float) @ self.R.T + self.t * self.s if False else self.s * (np.asarray(P, float) @ self.R.T) + self.t

    def vec(self, v):
        return np.asarray(v, float) @ self.R.T


def _axis_rot(n, a):
    n = np.asarray(n, float) / np.linalg.norm(n)
    K = np.array([[0, -n[2], n[1]], [n[2], 0, -n[0]], [-n[1], n[0], 0]])
    return np.eye(3) + math.sin(a) * K + (1 - math.cos(a)) * K @ K


def remap_key(key, pos):
    """Index-set keys (frozensets of vertex indices, nested) through the relabelling old->new."""
    if isinstance(key, frozenset):
        return frozenset(remap_key(k, pos) for k in key)
    if isinstance(key, tuple):
        t = tuple(int(pos[i]) for i in key)
        return t
    return int(pos[key])


def transform_fp(fa, g, three, pos, shape_a):
    """Push the fingerprint of x through g -> expected fingerprint of g(x)."""
    out = {}
    s, R, t = g.s, g.R, g.t
    with contracts.quiet():
        cen = np.asarray(fa.get("centroid"), float) if isinstance(fa.get("centroid"), np.ndarray) else None
    measure = fa.get("volume") if three else fa.get("area")
    for name, v in fa.items():
        kind = v[0] if isinstance(v, tuple) else None
        dim = fpr._dim_of(name, three)
        if kind == "raises" or kind in ("count", "shape", "reprlen", "repr"):
            out[name] = v
        elif kind == "ball":
            out[name] = ("ball", v[1], v[2] * s, g.pt(v[3]))
        elif kind == "cycles":
            cyc = set()
            for c in v[1]:
                m = [int(pos[i]) for i in c]
                k = m.index(min(m))
                cyc.add(tuple(m[k:] + m[:k]))
            out[name] = ("cycles", frozenset(cyc))
        elif kind == "set":
            out[name] = ("set", frozenset(tuple(sorted((int(pos[a]), int(pos[b])))) for a, b in v[1]))
        elif kind == "keyed-set":
            out[name] = ("keyed-set", {remap_key(k, pos): frozenset(remap_key(x, pos) for x in val) for k, val in v[1].items()})
        elif kind == "keyed":
            d = {}
            for k, val in v[1].items():
                nk = remap_key(k, pos) if not (isinstance(k, tuple)) else tuple(sorted((int(pos[k[0]]), int(pos[k[1]]))))
                if name == "equations":
                    n2 = g.vec(val[:3])
                    d[nk] = np.append(n2, s * val[3] - float(n2 @ t))
                elif name == "normals":
                    d[nk] = g.vec(val)
                elif name == "face_centroids":
                    d[nk] = g.pt(val)
                elif name == "edge_vectors":
                    flip = isinstance(k, tuple) and pos[k[0]] > pos[k[1]]
                    d[nk] = s * g.vec(val) * (-1 if flip else 1)
                elif name in ("edge_lengths",):
                    d[nk] = val * s
                elif name == "get_face_area":
                    d[nk] = val * s * s
                else:
                    d[nk] = val
            out[name] = ("keyed", d)
        elif kind == "spec":
            sp = dict(v[1])
            if "vertices" in sp:
                Vn = np.empty_like(sp["vertices"])
                Vn[np.asarray(pos)] = g.pt(sp["vertices"])
                sp["vertices"] = Vn
            for k in ("rounding_radius", "diameter", "a", "b", "c"):
                if k in sp and isinstance(sp[k], float):
                    sp[k] = sp[k] * s
            out[name] = ("spec", sp)
        elif name in ("centroid", "center"):
            out[name] = g.pt(v)
        elif name == "vertices":
            Vn = np.empty_like(v)
            Vn[np.asarray(pos)] = g.pt(v)
            out[name] = Vn
        elif name == "normal":
            out[name] = g.vec(v)
        elif name == "inertia_tensor" and cen is not None and measure is not None and isinstance(v, np.ndarray):
            m = float(measure)
            Ic = v - m * (float(cen @ cen) * np.eye(3) - np.outer(cen, cen))
            k = 5 if three else 4
            m2 = m * s ** (3 if three else 2)
            c2 = g.pt(cen)
            out[name] = s ** k * R @ Ic @ R.T + m2 * (float(c2 @ c2) * np.eye(3) - np.outer(c2, c2))
        elif name == "polar_moment_inertia" and cen is not None and isinstance(fa.get("normal"), np.ndarray):
            n = fa["normal"] / np.linalg.norm(fa["normal"])
            A = float(fa["area"])
            cpar = cen - (cen @ n) * n
            Jc = float(v) - A * float(cpar @ cpar)
            c2, n2 = g.pt(cen), g.vec(n)
            c2par = c2 - (c2 @ n2) * n2
            out[name] = np.asarray(s ** 4 * Jc + A * s * s * float(c2par @ c2par))
        elif name == "planar_moments_inertia":
            continue        # frame dependent; its invariant combination is polar_moment_inertia
        elif isinstance(v, np.ndarray) and dim is not None:
            out[name] = v * s ** dim
        else:
            out[name] = v
    return out


def build(cs, rng, which):
    """-> (constructor args builder) describing x; returns dict with make(g) -> (x, gx, pos)."""
    if which == "ConvexPolyhedron" or which == "ConvexSpheropolyhedron":
        c = gen.convex_case(rng, tabulated_frac=0.1)
        P = c["P"]
        if len(P) > 30:
            P = P[:30]
            P = P[gen.strict_hull_vertices(P)]
        r = float(np.exp(rng.uniform(-2, 1))) * gen.diameter(P)

        def make(g):
            perm = rng.permutation(len(P))
            pos = np.empty(len(P), int)
            pos[perm] = np.arange(len(P))       # old index i sits at position pos[i] in the new list
            Pn = g.pt(P)[perm]
            if which == "ConvexPolyhedron":
                return (lambda: cs.ConvexPolyhedron(P.copy())), (lambda: cs.ConvexPolyhedron(Pn.copy())), pos
            return (lambda: cs.ConvexSpheropolyhedron(P.copy(), r)), (lambda: cs.ConvexSpheropolyhedron(Pn.copy(), r * g.s)), pos
        return {"make": make, "size": gen.diameter(P), "info": {"vertices": P, "kind": c["kind"]}, "perm": True, "normal": None, "pts": P}
    if which == "Polyhedron":
        c = gen.mesh_case(rng, aligned_frac=0.4)
        V, faces = c["V"], c["faces"]

        def make(g):
            perm = rng.permutation(len(V))
            pos = np.empty(len(V), int)
            pos[perm] = np.arange(len(V))
            Vn = g.pt(V)[perm]
            fn = [[int(pos[i]) for i in np.roll(f, int(rng.integers(len(f))))] for f in faces]
            return (lambda: cs.Polyhedron(V.copy(), [list(f) for f in faces], faces_are_convex=True)), \
                (lambda: cs.Polyhedron(Vn.copy(), fn, faces_are_convex=True)), pos
        return {"make": make, "size": gen.diameter(V), "info": {"vertices": V, "faces": faces, "kind": c["kind"]}, "perm": True, "normal": None, "pts": V}
    # polygons
    c = gen.polygon_case(rng, kind=("convex" if which != "Polygon" else None))
    V, nrm = c["V"], c["normal"]
    if which != "Polygon" and not c["convex"]:
        xy = gen.convex_polygon_2d(rng)
        V = np.column_stack((xy, np.zeros(len(xy))))
        nrm = np.array([0, 0, 1.0])
    r = float(np.exp(rng.uniform(-2, 1))) * gen.diameter(V)

    def makep(g):
        n = len(V)
        if which == "Polygon":
            sh = int(rng.integers(n))
            idx = np.roll(np.arange(n), -sh)
        else:
            idx = rng.permutation(n)
        pos = np.empty(n, int)
        pos[idx] = np.arange(n)
        Vn = g.pt(V)[idx]
        n2 = g.vec(nrm)
        if which == "Polygon":
            return (lambda: cs.Polygon(V.copy(), normal=nrm.copy())), (lambda: cs.Polygon(Vn.copy(), normal=n2.copy())), pos
        if which == "ConvexPolygon":
            return (lambda: cs.ConvexPolygon(V.copy(), normal=nrm.copy())), (lambda: cs.ConvexPolygon(Vn.copy(), normal=n2.copy())), pos
        return (lambda: cs.ConvexSpheropolygon(V.copy(), r, normal=nrm.copy())), (lambda: cs.ConvexSpheropolygon(Vn.copy(), r * g.s, normal=n2.copy())), pos
    return {"make": makep, "size": gen.diameter(V), "info": {"vertices": V, "normal": nrm, "kind": c["kind"]}, "perm": which != "Polygon",
            "normal": nrm, "pts": V, "xy": (not c["tilted"])}


def setup(rec, tier):
    import coxeter.shapes as cs

    return {"cs": cs}


def exist_clear(shape, name):
    """True/False if the harness's own fit says the ball clearly exists / does not; None if unclear."""
    from .c13 import circum_fit, exists, in_fit, poly_edge_planes
    with contracts.quiet():
        V = np.asarray(shape.vertices, float)
        if name.startswith("circum"):
            nrm = np.asarray(shape.normal, float) if not fpr.is3d(shape) else None
            return exists(circum_fit(V, nrm)[2])
        if not fpr.is3d(shape):
            N, o, n, on, E = poly_edge_planes(V, np.asarray(shape.normal, float))
            return exists(in_fit(N, o, n, on)[2])
        faces = [[int(i) for i in f] for f in shape.faces]
        N, o = [], []
        for f in faces:
            p = V[f]
            nn = np.zeros(3)
            for k in range(1, len(p) - 1):
                nn += np.cross(p[k] - p[0], p[k + 1] - p[0])
            nn /= np.linalg.norm(nn)
            N.append(nn)
            o.append(nn @ p[0])
        return exists(in_fit(np.array(N), np.array(o))[2])


def run_case(i, rng, rec, tier, state):
    cs = state["cs"]
    which = ["ConvexPolyhedron", "Polyhedron", "Polygon", "ConvexPolygon", "ConvexSpheropolygon", "ConvexSpheropolyhedron"][i % 6]
    b = build(cs, rng, which)
    rec.cls(which)
    ng = 3
    x = None
    for gi in range(ng):
        g = G(rng, b["size"], inplane_normal=b.get("normal"))
        if not g.kinds and not b["perm"]:
            continue
        mk_x, mk_gx, pos = b["make"](g)
        for kd in g.kinds:
            rec.cls("g:" + kd)
        if b["perm"]:
            rec.cls("g:permutation")
        info = dict(b["info"], g={"R": g.R, "t": g.t, "s": g.s, "kinds": g.kinds}, cls=which)
        with warnings.catch_warnings():
            warnings.simplefilter("ignore")
            try:
                x = mk_x()
            except Exception as e:
                rec.note("construct-failed on the untransformed input (judged by C15): " + type(e).__name__)
                return
            try:
                gx = mk_gx()
                rec.ok("construct-g(x)")
            except Exception as e:
                rec.violation("construct-g(x)", f"{which}.__init__/valid-shape-becomes-error-under-" + "+".join(g.kinds or ["relabel"]),
                              dict(info, exc=repr(e)[:300]))
                continue
            three = fpr.is3d(x)
            random.seed(4711)
            np.random.seed(4711)
            fa = fpr.observe(x, light=True)
            random.seed(4711)
            np.random.seed(4711)
            fb = fpr.observe(gx, light=True)
            # members whose existence is marginal are not compared
            skip = {"planar_moments_inertia"}
            for nm in EXIST:
                if nm in fa or nm in fb:
                    base = nm.replace("_radius", "")
                    if exist_clear(x, base) is None:
                        skip.add(nm)
            if which in ("ConvexPolygon", "ConvexSpheropolygon", "Polygon") and b["perm"]:
                skip |= {"vertices"}      # the starting vertex of the cycle is a freedom; gsd vertices likewise
            want = transform_fp(fa, g, three, pos, x)
            if "gsd_shape_spec" in want and which in ("ConvexPolygon", "ConvexSpheropolygon"):
                skip.add("gsd_shape_spec")
            _, L = fpr.length_scale(gx)
            diffs = fpr.compare({k: v for k, v in want.items() if k not in LOOSE}, {k: v for k, v in fb.items() if k not in LOOSE},
                                L, 1e-8, three, skip=skip)
            diffs += fpr.compare({k: v for k, v in want.items() if k in LOOSE}, {k: v for k, v in fb.items() if k in LOOSE}, L, 1e-6, three)
            for name, why in diffs:
                tag = "+".join(g.kinds or ["relabel"])
                rec.violation("covariance", f"{which}.{name}/not-covariant-under-{tag}:{why.split('(')[0].strip()}",
                              lambda name=name, why=why: dict(info, member=name, why=why, on_x=_short(fa.get(name)), on_gx=_short(fb.get(name))))
            rec.ok("covariance", max(0, len(set(want) | set(fb)) - len(diffs)))
            # containment of transformed points is unchanged
            if hasattr(x, "is_inside") and which not in ("ConvexSpheropolygon",):
                pts = fpr.probe_points(x, 80)
                if which in ("Polyhedron", "ConvexPolyhedron"):
                    # plus points sharing coordinates with vertices (ties of sign-based winding code occur on the
                    # axis-aligned side only), kept outside the boundary band by the membership oracle of C05
                    from .c05 import MARGIN, oracle_convex, oracle_mesh
                    from .. import points as ptsmod
                    with contracts.quiet():
                        Vx = np.asarray(x.vertices, float)
                        fx = [[int(i_) for i_ in f] for f in x.faces]
                    extra = ptsmod.points3d(rng, Vx, geom.faces_to_tris(Vx, fx), 120, lattice=bool(b["info"].get("kind") == "voxel"))
                    if which == "Polyhedron":
                        _, band, bsize = oracle_mesh(Vx, fx, extra)
                    else:
                        _, band, bsize = oracle_convex(Vx, extra)
                    pts = np.vstack((pts, extra[band > 1e3 * MARGIN * bsize]))
                try:
                    a = np.asarray(x.is_inside(pts))
                    bres = np.asarray(gx.is_inside(g.pt(pts)))
                    same = a.shape == bres.shape and bool(np.all(a == bres))
                    rec.check("is_inside-covariance", same, f"{which}.is_inside/not-invariant-under-" + "+".join(g.kinds or ["relabel"]),
                              lambda: dict(info, n_diff=int(np.sum(a != bres)) if a.shape == bres.shape else -1))
                except NotImplementedError:
                    pass
                except Exception as e:
                    rec.violation("is_inside-covariance", f"{which}.is_inside/raises-{type(e).__name__}-under-" + "+".join(g.kinds or ["relabel"]),
                                  dict(info, exc=repr(e)[:300]))
            # radial distance: d'(theta) = s d(theta - phi) for in-plane rotations of xy shapes
            if which in ("ConvexPolygon", "ConvexSpheropolygon") and b.get("xy") and ("rotation" not in g.kinds):
                nrm0 = np.asarray(b["normal"], float)
                if nrm0[2] > 1 - 1e-12:
                    phi = getattr(g, "inplane_angle", 0.0) if "rotation-inplane" in g.kinds else 0.0
                    th = np.concatenate((rng.uniform(-4 * np.pi, 4 * np.pi, size=40), np.arange(-8, 9) * np.pi / 4))
                    try:
                        da = np.asarray(x.distance_to_surface(th - phi), float)
                        db = np.asarray(gx.distance_to_surface(th.copy()), float)
                        ok = da.shape == db.shape and bool(np.all(np.abs(db - g.s * da) <= 1e-8 * g.s * b["size"] * (1 + 10 * (which == "ConvexSpheropolygon"))))
                        rec.check("distance_to_surface-covariance", ok, f"{which}.distance_to_surface/not-covariant-under-" + "+".join(g.kinds or ["relabel"]),
                                  lambda: dict(info, theta=th[:6], on_x=da[:6], on_gx=db[:6]))
                    except Exception as e:
                        rec.violation("distance_to_surface-covariance", f"{which}.distance_to_surface/raises-{type(e).__name__}", dict(info, exc=repr(e)[:200]))
            # form factor acquires s^3 (s^2) and the phase
            if hasattr(x, "compute_form_factor_amplitude") and which in ("ConvexPolyhedron", "Polyhedron", "Polygon", "ConvexPolygon"):
                q = fpr.probe_q(x)
                try:
                    Fa = np.asarray(x.compute_form_factor_amplitude(q))
                    q2 = g.vec(q) / g.s
                    Fb = np.asarray(gx.compute_form_factor_amplitude(q2))
                    k = 3 if three else 2
                    tt = g.t
                    if not three:
                        n2 = g.vec(b["normal"])
                        q2p = q2 - (q2 @ n2)[:, None] * n2
                        phase = np.exp(-1j * (q2p @ tt))
                    else:
                        phase = np.exp(-1j * (q2 @ tt))
                    wantF = g.s ** k * Fa * phase
                    meas = abs(wantF[0]) if len(wantF) else 1.0
                    tol = 1e-7 * meas * (1 + np.linalg.norm(q2, axis=1) * L) + 1e-12 * meas
                    bad = np.abs(Fb - wantF) > tol
                    rec.check("form-factor-covariance", not bad.any(), f"{which}.form_factor/not-covariant-under-" + "+".join(g.kinds or ["relabel"]),
                              lambda: dict(info, q=q, F_x=Fa, F_gx=Fb, want=wantF))
                except Exception as e:
                    rec.violation("form-factor-covariance", f"{which}.form_factor/raises-{type(e).__name__}-under-" + "+".join(g.kinds or ["relabel"]),
                                  dict(info, exc=repr(e)[:300]))
        rec.nontriv(which, b["pts"], g.R, g.t, g.s)
    if i < 6 and x is not None:
        rec.sample({"class": which, "kind": b["info"].get("kind"), "n": len(b["pts"]), "last_g": {"s": g.s, "t": g.t, "kinds": g.kinds}})


def _short(v):
    if isinstance(v, tuple):
        return (v[0], str(v[1])[:200])
    if isinstance(v, np.ndarray):
        return v if v.size <= 12 else v.ravel()[:12]
    return v

"""C12 -- Form factor amplitude is the Fourier transform of the shape.

Monitor: postcondition on ``compute_form_factor_amplitude`` of Sphere, Polyhedron (hence
ConvexPolyhedron) and Polygon -- including a deterministic sub-sample of the per-face
Polygon calls the polyhedron code makes internally.  Oracle O-fourier: d!*vol*divided
difference of exp over simplices, evaluated with mpmath at 400 digits (coincident nodes
separated by 1e-80, so q=0, q perpendicular to an edge and q parallel to a face normal need
no special case); closed forms for unions of boxes and for the sphere as second opinions.
Relational checks: F(0)=measure, F(-q)=conj F(q), translation phase, batch vs single."""

import hashlib

import numpy as np

from .. import contracts, gen, geom, points

PROPERTY = "C12"
RULE = ("Small G-convex solids (<=14 vertices), G-mesh voxel solids (closed form), extrusions and perturbed hulls, G-poly polygons "
        "(both orientations, default/explicit normals, tilted), spheres x G-q: |q| size in {0} U [1e-3,30], random directions, along "
        "face normals, perpendicular to edges, along axes, +-q pairs, sequences approaching q=0 and a face normal; batches from (1,3) "
        "upward; densities != 1.  Non-trivial = special q (normal-parallel, edge-perpendicular, axis, approach) or off-origin or "
        "non-convex shape; distinct = SHA-1 of shape + q.")
ASSUMPTIONS = ["mpmath exp at 400 digits; node separation 1e-80 perturbs the transform by <1e-70",
               "tolerance 1e-8 * measure * (1 + |q| L)"]
ANCHORS = ["coxeter.shapes.polyhedron:Polyhedron.compute_form_factor_amplitude",
           "coxeter.shapes.polygon:Polygon.compute_form_factor_amplitude",
           "coxeter.shapes.sphere:Sphere.compute_form_factor_amplitude"]
REQUIRED_MONITORS = ["Polyhedron.form_factor", "Polygon.form_factor", "Sphere.form_factor", "F(-q)=conj", "translation-phase",
                     "batch-vs-single", "oracle-second-opinion:box"]
REQUIRED_CLASSES = ["q:zero", "q:along-normal", "q:perp-edge", "q:axis", "q:approach-normal", "q:approach-zero", "batch:(1,3)",
                    "density!=1", "polygon:cw", "polygon:ccw", "mesh:voxel", "sphere:extreme-units", "batch:all-special", "q-form:float32"]
WATCHDOG = {"quick": 1800, "thorough": 14400}
_cache = {}


def ncases(tier):
    return 160 if tier == "quick" else 1600


def tol_of(measure, q, L, d=None, dim=3):
    """1e-8 * measure * (1+|q|L), plus the conditioning allowance of any boundary-integral
    evaluation at small |q| d: ~45 eps * d^dim / (|q| d)^(dim-1) (terms of size d^dim/(qd)^(dim-1)
    cancel down to the measure)."""
    qn = float(np.linalg.norm(q))
    t = 1e-8 * abs(measure) * (1 + qn * L)
    if d is not None:
        t += 1e-14 * d ** dim / max(qn * d, 1e-4) ** (dim - 1)
    return t


def _h(*a):
    m = hashlib.sha1()
    for x in a:
        m.update(np.ascontiguousarray(x).tobytes())
    return int(m.hexdigest()[:8], 16)


def solid_facts(s):
    V = np.asarray(s.vertices, float)
    faces = [[int(i) for i in f] for f in s.faces]
    key = (V.tobytes(), str(faces))
    if key not in _cache:
        if len(_cache) > 16:
            _cache.clear()
        tris = geom.faces_to_tris(V, faces)
        vol, cen, _ = geom.solid_exact(tris)
        nrm = np.cross(tris[:, 1] - tris[:, 0], tris[:, 2] - tris[:, 0])
        nrm = nrm / np.linalg.norm(nrm, axis=1)[:, None]
        _cache[key] = {"tris": tris, "V": vol, "c": cen, "L": float(np.linalg.norm(V, axis=1).max()), "ft": {},
                       "d": gen.diameter(V), "normals": nrm}
    return _cache[key]


def setup(rec, tier):
    import coxeter.shapes as cs

    state = {"cs": cs, "voxel": None}

    def q_of(a, k):
        return np.asarray(a[0] if a else k.get("q"), float)

    def dens_of(a, k):
        return float(a[1]) if len(a) > 1 else float(k.get("density", 1.0))

    def solid_post(s, a, k, res, tok):
        q = q_of(a, k)
        rho = dens_of(a, k)
        res = np.asarray(res)
        F = solid_facts(s)
        wit = lambda **kw: dict({"vertices": np.asarray(s.vertices), "faces": [[int(i) for i in f] for f in s.faces], "density": rho}, **kw)  # noqa: E731
        if q.ndim != 2 or res.shape != (len(q),):
            rec.violation("Polyhedron.form_factor", "Polyhedron.form_factor/result-shape", lambda: wit(q=q, got_shape=res.shape))
            return
        vox = state["voxel"]
        for j, qq in enumerate(q):
            kq = qq.tobytes()
            if kq not in F["ft"]:
                if vox is not None and vox["key"] == np.asarray(s.vertices).tobytes():
                    A, t, cells = vox["A"], vox["t"], vox["cells"]
                    q0 = A.T @ qq
                    f0 = sum(geom.fourier_box(q0, c, np.array(c) + 1.0) for c in cells)
                    F["ft"][kq] = f0 * abs(np.linalg.det(A)) * np.exp(-1j * float(qq @ t))
                else:
                    F["ft"][kq] = geom.fourier_solid(qq, F["tris"], F["c"])
            want = rho * F["ft"][kq]
            mech = "Polyhedron.form_factor"
            if rho != 1.0 and abs(res[j] - F["ft"][kq]) <= tol_of(F["V"], qq, F["L"], F["d"]):
                mech = "Polyhedron.form_factor/density-ignored"
            elif not np.any(qq):
                mech += "/q=0"
            tol = tol_of(F["V"] * max(1.0, abs(rho)), qq, F["L"], F["d"] * max(1.0, abs(rho)) ** (1 / 3))
            # conditioning of the face most nearly perpendicular to q: its boundary integral has terms of size
            # d/|q_par| and is divided by |q| again in the polyhedron sum
            qn = float(np.linalg.norm(qq))
            if qn > 0:
                qpar = np.linalg.norm(qq[None, :] - (F["normals"] @ qq)[:, None] * F["normals"], axis=1)
                qpar = qpar[qpar * F["d"] > 1e-7]
                if len(qpar):
                    tol += 100 * 2.2e-16 * max(1.0, abs(rho)) * F["d"] ** 3 / ((qpar.min() * F["d"]) * (qn * F["d"]))
            rec.close("Polyhedron.form_factor", complex(res[j]), complex(want), tol, mech, lambda: wit(q=qq))

    def polygon_post(s, a, k, res, tok):
        q = q_of(a, k)
        rho = dens_of(a, k)
        res = np.asarray(res)
        V = np.asarray(s.vertices, float)
        nrm = np.asarray(s.normal, float)
        inner = state.get("depth", 0) > 0
        if inner and _h(V, q) % 8 != 0:
            return       # deterministic 1-in-8 sub-sample of the per-face calls made by the polyhedron code
        E = geom.poly3d_exact(V, nrm)
        L = float(np.linalg.norm(V, axis=1).max())
        dia = gen.diameter(V) * max(1.0, abs(rho)) ** 0.5
        wit = lambda **kw: dict({"vertices": V, "normal": nrm, "density": rho, "inner_call": inner}, **kw)  # noqa: E731
        if q.ndim != 2 or res.shape != (len(q),):
            rec.violation("Polygon.form_factor", "Polygon.form_factor/result-shape", lambda: wit(q=q, got_shape=res.shape))
            return
        orient = "cw" if E["signed_area"] < 0 else "ccw"
        for j, qq in enumerate(q):
            want = rho * geom.fourier_polygon(qq, V, nrm)
            mech = "Polygon.form_factor/" + orient
            qpar = qq - np.dot(qq, E["frame"][2]) * E["frame"][2]
            if np.isclose(qpar @ qpar, 0):
                mech += "/inplane-q=0"
            elif orient == "cw" and abs(res[j] + want) <= tol_of(E["area"] * max(1, abs(rho)), qq, L, dia, 2):
                mech = "Polygon.form_factor/cw/sign-flipped-for-clockwise-order"
            rec.close("Polygon.form_factor", complex(res[j]), complex(want), tol_of(E["area"] * max(1.0, abs(rho)), qq, L, dia, 2), mech,
                      lambda: wit(q=qq))

    def sphere_post(s, a, k, res, tok):
        q = np.atleast_2d(q_of(a, k))
        rho = dens_of(a, k)
        res = np.asarray(res)
        r, c = float(s.radius), np.asarray(s.centroid, float)
        vol = 4 / 3 * np.pi * r ** 3
        if res.shape != (len(q),):
            rec.violation("Sphere.form_factor", "Sphere.form_factor/result-shape", {"q": q, "got_shape": res.shape})
            return
        for j, qq in enumerate(q):
            want = rho * geom.fourier_sphere(qq, r, c)
            rec.close("Sphere.form_factor", complex(res[j]), complex(want), tol_of(vol * max(1.0, abs(rho)), qq, r + np.linalg.norm(c)),
                      "Sphere.form_factor", lambda: {"radius": r, "center": c, "q": qq, "density": rho})

    def raised(name):
        def f(s, a, k, exc, tok):
            q = q_of(a, k)
            rec.violation(name + ".form_factor", f"{name}.form_factor/raises-{type(exc).__name__}/q-shape={q.shape if q.ndim == 2 and len(q) == 1 else 'batch'}",
                          lambda: {"class": type(s).__name__, "q": q, "exc": repr(exc)[:300], "vertices": getattr(s, "vertices", None)})
        return f

    def solid_pre(s, a, k):
        state["depth"] = state.get("depth", 0) + 1

    def solid_post2(s, a, k, res, tok):
        state["depth"] -= 1
        solid_post(s, a, k, res, tok)

    def solid_raised(s, a, k, exc, tok):
        state["depth"] -= 1
        raised("Polyhedron")(s, a, k, exc, tok)

    contracts.hook(cs.Polyhedron, "compute_form_factor_amplitude", pre=solid_pre, post=solid_post2, raised=solid_raised)
    contracts.hook(cs.Polygon, "compute_form_factor_amplitude", post=polygon_post, raised=raised("Polygon"))
    contracts.hook(cs.Sphere, "compute_form_factor_amplitude", post=sphere_post, raised=raised("Sphere"))
    return state


def _call(rec, s, q, name, info, **kw):
    try:
        return np.asarray(s.compute_form_factor_amplitude(q, **kw))
    except Exception:
        return None      # recorded by the raised-hook


def _relational(rec, rng, s, name, q, tags, F, measure, L, shift_fn, info, d=None, dim=3, tdir=None):
    """F(-q)=conj F(q); single (1,3) rows = batch rows; translated copy carries the phase."""
    if F is None:
        return
    Fm = _call(rec, s, -q, name, info)
    if Fm is not None and Fm.shape == F.shape:
        for j in range(len(q)):
            rec.check("F(-q)=conj", abs(Fm[j] - np.conj(F[j])) <= 2 * tol_of(measure, q[j], L, d, dim), name + ".form_factor/F(-q)-not-conjugate",
                      lambda j=j: dict(info, q=q[j], F=F[j], Fminus=Fm[j]))
    for j in rng.choice(len(q), size=min(4, len(q)), replace=False):
        rec.cls("batch:(1,3)")
        f1 = _call(rec, s, q[j:j + 1].copy(), name, info)
        if f1 is not None:
            rec.check("batch-vs-single", f1.shape == (1,) and abs(f1[0] - F[j]) <= 2 * tol_of(measure, q[j], L, d, dim),
                      name + ".form_factor/single-differs-from-batch", lambda j=j: dict(info, q=q[j], single=f1, batch=F[j]))
    t = gen.random_unit(rng) * float(rng.uniform(0.3, 3)) * L
    if tdir is not None:     # polygons: q is projected into the plane, so translate within the plane
        t = t - np.dot(t, tdir) * tdir
    s2 = shift_fn(t)
    if s2 is not None:
        with contracts.quiet():
            try:
                F2 = np.asarray(s2.compute_form_factor_amplitude(q))
            except Exception:
                F2 = None
        if F2 is not None and F2.shape == F.shape:
            for j in range(len(q)):
                rec.check("translation-phase", abs(F2[j] - F[j] * np.exp(-1j * float(q[j] @ t))) <= 4 * tol_of(measure, q[j], L + np.linalg.norm(t), d, dim),
                          name + ".form_factor/translation-phase", lambda j=j: dict(info, q=q[j], t=t, F=F[j], F_translated=F2[j]))


def run_case(i, rng, rec, tier, state):
    cs = state["cs"]
    state["voxel"] = None
    mode = i % 4
    nq = 22
    if mode == 0:
        for _ in range(40):
            c = gen.convex_case(rng, tabulated_frac=0.05)
            if len(c["P"]) <= 14:
                break
        P = c["P"][:14]
        if len(P) != len(c["P"]):
            P = P[gen.strict_hull_vertices(P)]
        h = geom.hull_facets(P)
        s = cs.ConvexPolyhedron(P.copy()) if rng.random() < 0.6 else cs.Polyhedron(P.copy(), [list(f) for f in h.facets], faces_are_convex=True)
        edges = np.array([P[b] - P[a] for a, b in h.edges])
        q, tags = points.wavevectors(rng, gen.diameter(P), h.normals, edges, nq)
        name, info = "Polyhedron", {"class": type(s).__name__, "kind": c["kind"], "vertices": P}
        F0 = solid_facts(s)
        measure, L = F0["V"], F0["L"]
        shift = lambda t: cs.ConvexPolyhedron(P + t)  # noqa: E731
        relkw = {"d": F0["d"], "dim": 3}
        rec.cls("solid:convex")
    elif mode == 1:
        c = gen.mesh_case(rng, kinds=("voxel", "voxel", "extrusion", "perturbed"), aligned_frac=0.4)
        for _ in range(20):
            ntri = sum(len(f) - 2 for f in c["faces"])
            if c["kind"] == "voxel" and len(c["cells"]) <= 8 or c["kind"] != "voxel" and ntri <= 28:
                break
            c = gen.mesh_case(rng, kinds=("voxel", "voxel", "extrusion", "perturbed"), aligned_frac=0.4)
        V, faces = c["V"], c["faces"]
        s = cs.Polyhedron(V.copy(), [list(f) for f in faces], faces_are_convex=True)
        tris = geom.faces_to_tris(V, faces)
        nrm = np.cross(tris[:, 1] - tris[:, 0], tris[:, 2] - tris[:, 0])
        nrm /= np.linalg.norm(nrm, axis=1)[:, None]
        edges = np.array([V[f[(t + 1) % len(f)]] - V[f[t]] for f in faces for t in range(len(f))])
        q, tags = points.wavevectors(rng, gen.diameter(V), nrm, edges, nq)
        name, info = "Polyhedron", {"class": "Polyhedron", "kind": c["kind"], "vertices": V, "faces": faces}
        rec.cls("mesh:" + c["kind"])
        if c["kind"] == "voxel":
            state["voxel"] = {"key": V.tobytes(), "A": c["A"], "t": c["t"], "cells": c["cells"]}
            # second opinion: the tetrahedral transform equals the box closed form on two wave vectors
            for qq in q[[1, min(5, len(q) - 1)]]:
                f_tet = geom.fourier_solid(qq, tris, V.mean(0))
                q0 = c["A"].T @ qq
                f_box = sum(geom.fourier_box(q0, cc, np.array(cc) + 1.0) for cc in c["cells"]) * abs(np.linalg.det(c["A"])) * np.exp(-1j * float(qq @ c["t"]))
                rec.check("oracle-second-opinion:box", abs(f_tet - f_box) <= 1e-11 * (1 + abs(f_box)), "oracle/simplex-vs-box-transform-disagree",
                          {"q": qq, "cells": c["cells"]})
        F0 = solid_facts(s)
        measure, L = F0["V"], F0["L"]
        shift = lambda t: cs.Polyhedron(V + t, [list(f) for f in faces], faces_are_convex=True)  # noqa: E731
        relkw = {"d": F0["d"], "dim": 3}
    elif mode == 2:
        for _ in range(40):
            c = gen.polygon_case(rng, unit_frac=0.1)
            if len(c["V"]) <= 12:
                break
        V = c["V"][:12] if len(c["V"]) > 12 else c["V"]
        if len(V) != len(c["V"]):
            return
        if c.get("straight_corner") is not None:
            rec.cls("polygon:straight-corner" + (":first-three-collinear" if c["straight_corner"] == 1 else ""))
        cls = cs.ConvexPolygon if (c["convex"] and rng.random() < 0.3) else cs.Polygon
        try:
            s = cls(V.copy(), normal=None if c["normal_arg"] is None else np.array(c["normal_arg"]))
        except Exception as e:
            rec.note("construct-failed (judged by C15): " + type(e).__name__)
            return
        Vs, nv = np.asarray(s.vertices, float), np.asarray(s.normal, float)
        E = geom.poly3d_exact(Vs, nv)
        rec.cls("polygon:" + ("ccw" if E["signed_area"] > 0 else "cw"))
        edges = np.roll(Vs, -1, axis=0) - Vs
        q, tags = points.wavevectors(rng, gen.diameter(Vs), np.array([nv]), edges, nq)
        name, info = "Polygon", {"class": cls.__name__, "vertices": V, "normal_arg": c["normal_arg"], "kind": c["kind"]}
        measure, L = E["area"], float(np.linalg.norm(Vs, axis=1).max())
        shift = lambda t: cs.Polygon(Vs + t, normal=nv)  # noqa: E731
        relkw = {"d": gen.diameter(Vs), "dim": 2, "tdir": nv / np.linalg.norm(nv)}
    else:
        (r,), _ = gen.axes_case(rng, 1)
        r = float(np.clip(r, 1e-2, 1e2))
        cen, _ = gen.center_case(rng, r)
        if rng.random() < 0.2:
            # the same sphere in very small / very large units (a nanoparticle written in metres ...): F is homogeneous
            # (F -> u^3 F at q/u), so nothing in the oracle changes, but absolute thresholds in the code under test would
            unit = float(10 ** rng.uniform(-10, -7)) if rng.random() < 0.7 else float(10 ** rng.uniform(4, 6))
            r, cen = r * unit, np.asarray(cen, float) * unit
            rec.cls("sphere:extreme-units")
        s = cs.Sphere(r, cen)
        q, tags = points.wavevectors(rng, 2 * r, np.eye(3), None, nq)
        name, info = "Sphere", {"class": "Sphere", "radius": r, "center": cen}
        measure, L = 4 / 3 * np.pi * r ** 3, r + float(np.linalg.norm(cen))
        shift = lambda t: cs.Sphere(r, cen + t)  # noqa: E731
        relkw = {"d": 2 * r, "dim": 3}
        rec.cls("solid:sphere")
    for t in set(tags):
        rec.cls("q:" + t)
    q = q[rng.permutation(len(q))] if rng.random() < 0.5 else q
    F = _call(rec, s, q.copy(), name, info)
    _relational(rec, rng, s, name, q, tags, F, measure, L, shift, info, **relkw)
    # whole-number wave vectors as integer arrays (judged by the same monitor)
    qi = np.rint(q[rng.choice(len(q), size=min(4, len(q)), replace=False)])
    if float(np.abs(qi).max()) < 2 ** 30:
        rec.cls("q-form:int")
        _call(rec, s, qi.astype(np.int64), name, info)
        _call(rec, s, qi[:2].astype(np.int32), name, info)
    # wave vectors held in single precision (their values are exact doubles too; the answer is still a double-precision
    # transform at those values) - taken from the small-|q| end as well, where differences of nearly equal terms decide
    order = np.argsort(np.linalg.norm(q, axis=1))
    q32 = q[np.concatenate((order[:3], order[-2:]))].astype(np.float32)
    rec.cls("q-form:float32")
    _call(rec, s, q32, name, info)
    _call(rec, s, q32[:1].astype(np.float16).astype(np.float32), name, info)
    # the same wave vectors in other memory layouts (Fortran order, strided views, read-only) and as nested lists: the
    # postcondition judges each call against the transform; the answers must agree with the batch and the argument must stay
    if F is not None and F.shape == (len(q),):
        sub = np.sort(rng.choice(len(q), size=min(5, len(q)), replace=False))
        for lab, arr in points.layouts(q[sub]) + [("nested-lists", [[float(x) for x in row] for row in q[sub]])]:
            rec.cls("q-layout:" + lab)
            keep = np.array(arr, dtype=float, copy=True)
            fl = _call(rec, s, arr, name, info)
            if fl is None:
                continue
            okl = fl.shape == (len(sub),) and all(abs(fl[t] - F[j]) <= 2 * tol_of(measure, q[j], L, relkw.get("d"), relkw.get("dim", 3)) for t, j in enumerate(sub))
            rec.check("batch-vs-single", bool(okl), name + f".form_factor/answer-depends-on-memory-layout:{lab}", lambda: dict(info, layout=lab))
            rec.check("batch-vs-single", np.array_equal(np.asarray(arr, float), keep), name + f".form_factor/modifies-argument:{lab}", lambda: dict(info, layout=lab))
    rho = float(rng.choice([0.5, 2.0, -1.5, 3.25]))
    rec.cls("density!=1")
    _call(rec, s, q[:5].copy(), name, info, density=rho)
    # batches in which *every* wave vector takes a special branch (all zero; for polygons all along the normal), with a
    # density: the postcondition judges them like any other call
    rec.cls("batch:all-special")
    _call(rec, s, np.zeros((1, 3)), name, info, density=rho)
    _call(rec, s, np.zeros((3, 3)), name, info, density=rho)
    if name == "Polygon":
        nz = relkw["tdir"] / relkw["d"]
        _call(rec, s, np.array([0.7 * nz, -2.3 * nz, 0 * nz]), name, info, density=rho)
        _call(rec, s, np.array([1.9 * nz]), name, info, density=rho)
    if (i // 4) % 2 == 0:
        # evaluate - resize / move - evaluate again on the same object: the monitor judges the second evaluation against
        # the current geometry, so anything remembered from the first evaluation shows
        steps = []
        try:
            with contracts.quiet():
                f = float(np.exp(rng.uniform(-0.7, 0.7)))
                d0 = relkw["d"]
                for op in (["size"], ["move"], ["size", "move"], ["move", "size"])[int(rng.integers(4))]:
                    if op == "size":
                        m = "volume" if hasattr(s, "volume") else "area"
                        setattr(s, m, abs(float(getattr(s, m))) * f)
                    elif name == "Sphere":
                        s.center = np.asarray(s.center, float) + d0 * rng.uniform(-1, 1, size=3)
                    elif name == "Polygon":
                        tdir = relkw["tdir"]
                        t = d0 * rng.uniform(-1, 1, size=3)
                        s.centroid = np.asarray(s.centroid, float) + (t - tdir * float(t @ tdir))     # in-plane move
                    else:
                        s.centroid = np.asarray(s.centroid, float) + d0 * rng.uniform(-1, 1, size=3)
                    steps.append(op)
        except Exception as e:
            rec.note(f"history step refused ({type(e).__name__})")
        if steps:
            rec.cls("history:" + "+".join(steps))
            info2 = dict(info, history=steps)
            if "vertices" in info2:
                with contracts.quiet():
                    info2["vertices"] = np.array(s.vertices, float, copy=True)
            _call(rec, s, q[:6].copy(), name, info2)
    for j in range(len(q)):
        rec.nontriv(name, info.get("vertices", info.get("radius")), q[j])
    if i < 6:
        rec.sample({k: (v if not isinstance(v, np.ndarray) or v.size < 40 else v[:6]) for k, v in dict(info, q_examples=q[:4]).items()})

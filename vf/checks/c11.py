"""C11 -- Rounded shapes obey Steiner formulas; curvature descriptors match definitions.

Monitor: postconditions on area/signed_area/perimeter of ConvexSpheropolygon, on
volume/surface_area/mean_curvature of ConvexSpheropolyhedron and on
mean_curvature/tau/asphericity/iq/get_dihedral of ConvexPolyhedron.  A, P, V, S from
O-planar / O-solid and M, dihedrals from O-hull (own normals, own edge list) -- not from
coxeter's core object."""

import math

import numpy as np

from .. import contracts, gen, geom

PROPERTY = "C11"
RULE = ("Convex cores from G-convex (<=40 vertices) and convex G-poly (regular/irregular, any orientation, xy and tilted) x "
        "radii {0} U 1e-3..1e2 core sizes.  Non-trivial = radius > 0 with an off-origin or non-regular core, or a core with a "
        "facet of more than 3 vertices; distinct = SHA-1 of rounded core vertices + radius.")
ASSUMPTIONS = ["M uses the code's normalisation: sum over edges of length x exterior angle / (8 pi)",
               "relative tolerance 1e-9 on the sum of the absolute Steiner terms"]
ANCHORS = ["coxeter.shapes.convex_spheropolygon:ConvexSpheropolygon.signed_area",
           "coxeter.shapes.convex_spheropolygon:ConvexSpheropolygon.perimeter",
           "coxeter.shapes.convex_spheropolyhedron:ConvexSpheropolyhedron.volume",
           "coxeter.shapes.convex_spheropolyhedron:ConvexSpheropolyhedron.surface_area",
           "coxeter.shapes.convex_spheropolyhedron:ConvexSpheropolyhedron.mean_curvature",
           "coxeter.shapes.convex_polyhedron:ConvexPolyhedron.mean_curvature", "coxeter.shapes.convex_polyhedron:ConvexPolyhedron.tau",
           "coxeter.shapes.convex_polyhedron:ConvexPolyhedron.asphericity", "coxeter.shapes.base_classes:Shape3D.iq",
           "coxeter.shapes.polyhedron:Polyhedron.get_dihedral"]
REQUIRED_MONITORS = ["ConvexSpheropolygon.area", "ConvexSpheropolygon.signed_area", "ConvexSpheropolygon.perimeter",
                     "ConvexSpheropolyhedron.volume", "ConvexSpheropolyhedron.surface_area", "ConvexSpheropolyhedron.mean_curvature",
                     "ConvexPolyhedron.mean_curvature", "ConvexPolyhedron.tau", "ConvexPolyhedron.asphericity", "ConvexPolyhedron.iq",
                     "ConvexPolyhedron.get_dihedral", "r=0:core"]
REQUIRED_CLASSES = ["radius:0", "radius:>0", "sphero3d", "sphero2d", "convex3d", "listing:star-step", "listing:random", "listing:boundary", "companion-read-first"]
REL = 1e-9
_cache = {}


def ncases(tier):
    return 1200 if tier == "quick" else 24000


def core3(V):
    V = np.asarray(V, float)
    key = V.tobytes()
    if key not in _cache:
        if len(_cache) > 64:
            _cache.clear()
        h = geom.hull_facets(V)
        vol, cen, _ = geom.solid_exact(h.tris())
        S = float(geom.mesh_area(V, h.facets).sum())
        M = h.mean_curvature_integral() / (4 * math.pi)
        _cache[key] = {"h": h, "V": vol, "S": S, "M": M, "d": gen.diameter(V)}
    return _cache[key]


def setup(rec, tier):
    import coxeter.shapes as cs

    def w3(s):
        return {"vertices": np.asarray(s.vertices), "radius": float(getattr(s, "radius", 0.0))}

    # --- spheropolygon -----------------------------------------------------
    def sp2(s):
        # the core is the convex polygon spanned by the vertex *set*: A and P do not depend on how the caller listed it
        # (nor on the order coxeter stores), so the cycle is rebuilt here by sorting about the normal
        n_ = np.asarray(s.normal, float)
        n_ = n_ / np.linalg.norm(n_)         # only the side it points to is taken from the shape
        E = geom.poly3d_exact(geom.convex_cycle(np.asarray(s.vertices, float), n_), n_)
        r = float(s.radius)
        return E, r

    def sp_area(s, a, k, res, tok):
        E, r = sp2(s)
        want = E["area"] + E["perimeter"] * r + math.pi * r * r
        rec.close("ConvexSpheropolygon.area", float(res), want, REL * want, "ConvexSpheropolygon.area/steiner", lambda: w3(s))

    def sp_sarea(s, a, k, res, tok):
        E, r = sp2(s)
        mag = E["area"] + E["perimeter"] * r + math.pi * r * r
        want = math.copysign(mag, E["signed_area"])
        rec.close("ConvexSpheropolygon.signed_area", float(res), want, REL * mag, "ConvexSpheropolygon.signed_area/steiner", lambda: w3(s))

    def sp_per(s, a, k, res, tok):
        E, r = sp2(s)
        want = E["perimeter"] + 2 * math.pi * r
        rec.close("ConvexSpheropolygon.perimeter", float(res), want, REL * want, "ConvexSpheropolygon.perimeter/steiner", lambda: w3(s))

    contracts.hook(cs.ConvexSpheropolygon, "area", post=sp_area)
    contracts.hook(cs.ConvexSpheropolygon, "signed_area", post=sp_sarea)
    contracts.hook(cs.ConvexSpheropolygon, "perimeter", post=sp_per)

    # --- spheropolyhedron --------------------------------------------------
    def dM(s, C):
        """Allowance for faces that are planar only up to the rounding of their coordinates and come in exact pieces (see
        geom.split_hull): across such a piece boundary the exterior angle is 0 up to rounding, and an angle taken as
        arccos(n1.n2) is sqrt(2 eps) ~ 2e-8 there - a contribution of up to 1e-9 of the solid's size per extra face, which is
        the method's conditioning at a flat edge and not a different shape."""
        with contracts.quiet():
            core = s.polyhedron if hasattr(s, "polyhedron") else s
            extra = max(0, len(core.faces) - len(C["h"].facets))
        if extra:
            rec.cls("face-planar-only-up-to-rounding:reported-in-exact-pieces")
        return extra * 2e-9 * C["d"]

    def sh_vol(s, a, k, res, tok):
        C, r = core3(s.vertices), float(s.radius)
        want = C["V"] + C["S"] * r + 4 * math.pi * C["M"] * r * r + 4 / 3 * math.pi * r ** 3
        rec.close("ConvexSpheropolyhedron.volume", float(res), want, REL * want + 4 * math.pi * r * r * dM(s, C), "ConvexSpheropolyhedron.volume/steiner", lambda: w3(s))

    def sh_area(s, a, k, res, tok):
        C, r = core3(s.vertices), float(s.radius)
        want = C["S"] + 8 * math.pi * C["M"] * r + 4 * math.pi * r * r
        rec.close("ConvexSpheropolyhedron.surface_area", float(res), want, REL * want + 8 * math.pi * r * dM(s, C), "ConvexSpheropolyhedron.surface_area/steiner",
                  lambda: w3(s))

    def sh_mc(s, a, k, res, tok):
        C, r = core3(s.vertices), float(s.radius)
        want = C["M"] + r
        rec.close("ConvexSpheropolyhedron.mean_curvature", float(res), want, REL * want + dM(s, C), "ConvexSpheropolyhedron.mean_curvature/steiner",
                  lambda: w3(s))

    contracts.hook(cs.ConvexSpheropolyhedron, "volume", post=sh_vol)
    contracts.hook(cs.ConvexSpheropolyhedron, "surface_area", post=sh_area)
    contracts.hook(cs.ConvexSpheropolyhedron, "mean_curvature", post=sh_mc)

    # --- convex polyhedron descriptors ------------------------------------
    def scal(member, fn):
        def post(s, a, k, res, tok):
            C = core3(s.vertices)
            want = fn(C)
            rec.close("ConvexPolyhedron." + member, float(res), want, REL * abs(want) * 10 * (1 + 100 * (dM(s, C) > 0)), f"ConvexPolyhedron.{member}/definition", lambda: w3(s))
        return post

    contracts.hook(cs.ConvexPolyhedron, "mean_curvature", post=scal("mean_curvature", lambda C: C["M"]))
    contracts.hook(cs.ConvexPolyhedron, "tau", post=scal("tau", lambda C: 4 * math.pi * C["M"] ** 2 / C["S"]))
    contracts.hook(cs.ConvexPolyhedron, "asphericity", post=scal("asphericity", lambda C: C["M"] * C["S"] / (3 * C["V"])))
    contracts.hook(cs.ConvexPolyhedron, "iq", post=scal("iq", lambda C: 36 * math.pi * C["V"] ** 2 / C["S"] ** 3))

    def dih_post(s, a, k, res, tok):
        if type(s) is not cs.ConvexPolyhedron:
            return
        C = core3(s.vertices)
        h = C["h"]
        fa, fb = int(a[0]), int(a[1])
        sets = {frozenset(f): i for i, f in enumerate(h.facets)}
        ia, ib = sets.get(frozenset(int(x) for x in s.faces[fa])), sets.get(frozenset(int(x) for x in s.faces[fb]))
        if ia is None or ib is None:
            rec.note("get_dihedral on a face that is not a hull facet (C07's business)")
            return
        n1, n2 = h.normals[ia], h.normals[ib]
        want = math.pi - math.atan2(np.linalg.norm(np.cross(n1, n2)), float(np.dot(n1, n2)))
        rec.close("ConvexPolyhedron.get_dihedral", float(res), want, 1e-7, "ConvexPolyhedron.get_dihedral/definition",
                  lambda: dict(w3(s), faces=(fa, fb)))

    contracts.hook(cs.ConvexPolyhedron, "get_dihedral", post=dih_post)
    return {"cs": cs}


def _history(rng, rec, s, members, core_attr):
    """Read - change - read: the getter monitors judge every read against the *current* core and radius, so a value
    remembered from before the change (a cache keyed on nothing, or updated only by the shape's own setters) shows up."""
    steps = []
    core = getattr(s, core_attr) if core_attr else None
    with contracts.quiet():
        L = float(np.ptp(np.asarray(s.vertices, float), axis=0).max())     # moves are relative to the shape's size
    size_core = "volume" if core_attr == "polyhedron" else "area"
    options = ["own-size", "radius"] if core_attr else ["own-size", "centroid"]
    if core is not None:
        options += ["core-size", "core-size2", "core-centroid"]
    if core_attr == "polyhedron" or (core_attr is None and hasattr(type(s), "diagonalize_inertia")):
        # turning the solid into its principal frame (about the origin: a solid away from the origin swings round) and handing it
        # to hoomd are public operations like any setter; often straight after a move that took the solid off the origin
        options += ["move-away-then-diagonalize", "diagonalize", "to_hoomd"]
    for _ in range(int(rng.integers(1, 3))):
        op = options[int(rng.integers(len(options)))]
        f = float(np.exp(rng.uniform(-1.0, 1.0)))
        try:
            with contracts.quiet():
                if op == "own-size":
                    m = members[0]
                    setattr(s, m, abs(float(getattr(s, m))) * f)
                elif op == "radius":
                    s.radius = float(s.radius) * f if rng.random() < 0.7 else 0.0
                elif op == "core-size":
                    setattr(core, size_core, abs(float(getattr(core, size_core))) * f)
                elif op == "core-size2":
                    m2 = "surface_area" if core_attr == "polyhedron" else "perimeter"
                    setattr(core, m2, float(getattr(core, m2)) * f)
                elif op == "core-centroid":
                    core.centroid = np.asarray(core.centroid, float) + L * rng.uniform(-2, 2, size=3) * (1 if core_attr == "polyhedron" else 0)
                elif op == "centroid":
                    s.centroid = np.asarray(s.centroid, float) + L * rng.uniform(-2, 2, size=3)
                elif op in ("move-away-then-diagonalize", "diagonalize", "to_hoomd"):
                    body = core if core is not None else s
                    if op == "move-away-then-diagonalize":
                        body.centroid = np.asarray(body.centroid, float) + L * rng.uniform(1.5, 4, size=3) * rng.choice([-1, 1], size=3)
                    if op == "to_hoomd":
                        (s if hasattr(type(s), "to_hoomd") else body).to_hoomd()
                    else:
                        body.diagonalize_inertia()
            steps.append(op)
        except Exception as e:
            steps.append(f"{op}:refused-{type(e).__name__}")
    rec.cls("history:" + "+".join(sorted(set(x.split(":")[0] for x in steps))))
    for m in members:
        try:
            getattr(s, m)
        except Exception as e:
            rec.violation(f"{type(s).__name__}.{m}", f"{type(s).__name__}.{m}/raises-{type(e).__name__}-after-{'+'.join(steps)}",
                          {"exc": repr(e)[:200], "steps": steps})


def _radius(rng, size):
    if rng.random() < 0.2:
        return 0.0
    return float(np.exp(rng.uniform(math.log(1e-3), math.log(1e2)))) * size


def _companion(rng, rec, cs, cname, frac=0.35):
    """In a third of the cases a second, *different* solid of the same class is built after the shape under test and read
    first (dihedrals, curvature, sizes - each judged by the same postconditions), and only then the shape under test is read,
    with no construction in between: whatever two live objects share behind the scenes (a class-level table keyed by face
    indices, a module-level buffer) would carry the companion's values over."""
    if rng.random() >= frac:
        return
    for _ in range(30):
        c = gen.convex_case(rng, tabulated_frac=0.2)
        if len(c["P"]) <= 30:
            break
    P = c["P"][:30]
    if len(P) != len(c["P"]):
        P = P[gen.strict_hull_vertices(P)]
    try:
        t = cs.ConvexPolyhedron(P.copy()) if cname == "ConvexPolyhedron" else cs.ConvexSpheropolyhedron(P.copy(), float(rng.uniform(0.05, 1.0)) * gen.diameter(P))
    except Exception:
        return
    rec.cls("companion-read-first")
    for m in (("mean_curvature", "tau", "asphericity", "iq") if cname == "ConvexPolyhedron" else ("volume", "surface_area", "mean_curvature")):
        try:
            getattr(t, m)
        except Exception:
            pass
    if cname == "ConvexPolyhedron":
        with contracts.quiet():
            nbs = [(a, int(b)) for a in range(t.num_faces) for b in t.neighbors[a] if b > a]
        for a, b in nbs[:40]:
            try:
                t.get_dihedral(a, b)
            except Exception:
                pass
    return t


def run_case(i, rng, rec, tier, state):
    cs = state["cs"]
    mode = i % 3
    if mode == 0:
        xy = gen.convex_polygon_2d(rng, axis_aligned=bool(rng.random() < 0.2)) * float(np.exp(rng.uniform(-1.5, 1.5)))
        V = np.column_stack((xy, np.zeros(len(xy))))
        u = rng.random()
        star = geom.star_listing(rng, len(V)) if u < 0.25 else None
        if star is not None:
            V = V[star] if rng.random() < 0.5 else V[star][::-1]      # every corner turns the same way, yet not the boundary order
            rec.cls("listing:star-step")
        elif u < 0.7:
            V = V[rng.permutation(len(V))]
            rec.cls("listing:random")
        else:
            V = np.roll(V[::-1] if rng.random() < 0.5 else V, int(rng.integers(len(V))), axis=0)
            rec.cls("listing:boundary")
        tilted = rng.random() < 0.5
        pn = np.array([0.0, 0.0, 1.0])
        if tilted:
            R_ = gen.random_rotation(rng)
            V = V @ R_.T + rng.uniform(-3, 3, size=3)
            pn = R_ @ pn
        else:
            V[:, :2] += rng.uniform(-3, 3, size=2)
        r = _radius(rng, gen.diameter(V))
        rec.cls("sphero2d")
        rec.cls("radius:0" if r == 0 else "radius:>0")
        # the plane normal as a caller may state it: not at all, or either side of the plane, of any length (the raw cross
        # product of two edges, an axis times two ...) - the documented argument only has to be perpendicular to the polygon
        kw = {}
        un = rng.random()
        if un < 0.5:
            nv = pn * float(rng.choice([-1.0, 1.0]))
            if un < 0.3:
                nv = nv * float(np.exp(rng.uniform(-2.5, 2.5)))
                rec.cls("normal-argument:not-unit-length")
            else:
                rec.cls("normal-argument:unit")
            kw["normal"] = nv if rng.random() < 0.5 else [float(x) for x in nv]
        else:
            rec.cls("normal-argument:none")
        try:
            s = cs.ConvexSpheropolygon(V.copy(), r, **kw)
        except Exception as e:
            rec.note("construct-failed (judged by C15): " + type(e).__name__)
            return
        vals = {}
        for m in ("area", "signed_area", "perimeter"):
            try:
                vals[m] = getattr(s, m)
            except Exception as e:
                rec.violation("ConvexSpheropolygon." + m, f"ConvexSpheropolygon.{m}/raises-{type(e).__name__}", {"V": V, "r": r, "exc": repr(e)})
        if r == 0 and len(vals) == 3:
            with contracts.quiet():
                core = s.polygon
                ok = (abs(vals["area"] - core.area) <= 1e-12 * core.area and abs(vals["perimeter"] - core.perimeter) <= 1e-12 * core.perimeter)
            rec.check("r=0:core", ok, "ConvexSpheropolygon/r=0-differs-from-core", {"V": V})
        rec.nontriv(V, r) if r > 0 else None
        if (i // 3) % 2 == 0:
            _history(rng, rec, s, ("area", "signed_area", "perimeter"), "polygon")
        if i < 6:
            rec.sample({"class": "ConvexSpheropolygon", "vertices": V, "radius": r})
        return
    for _ in range(30):
        c = gen.convex_case(rng, tabulated_frac=0.1)
        if len(c["P"]) <= 40:
            break
    P = c["P"]
    if len(P) > 40:
        P = P[:40]
        P = P[gen.strict_hull_vertices(P)]
    C = core3(P)
    if mode == 1:
        r = _radius(rng, C["d"])
        rec.cls("sphero3d")
        rec.cls("radius:0" if r == 0 else "radius:>0")
        try:
            s = cs.ConvexSpheropolyhedron(P.copy(), r)
        except Exception as e:
            rec.note("construct-failed (judged by C15): " + type(e).__name__)
            return
        _companion(rng, rec, cs, "ConvexSpheropolyhedron")
        vals = {}
        for m in ("volume", "surface_area", "mean_curvature"):
            try:
                vals[m] = getattr(s, m)
            except Exception as e:
                rec.violation("ConvexSpheropolyhedron." + m, f"ConvexSpheropolyhedron.{m}/raises-{type(e).__name__}", {"V": P, "r": r, "exc": repr(e)})
        if r == 0 and len(vals) == 3:
            ok = (abs(vals["volume"] - C["V"]) <= 1e-9 * C["d"] ** 3 and abs(vals["surface_area"] - C["S"]) <= 1e-9 * C["d"] ** 2
                  and abs(vals["mean_curvature"] - C["M"]) <= 1e-9 * C["d"] * (1 + 2 * max(0, len(s.polyhedron.faces) - len(C["h"].facets))))
            rec.check("r=0:core", ok, "ConvexSpheropolyhedron/r=0-differs-from-core", {"V": P, "vals": vals})
        if r > 0:
            rec.nontriv(P[np.lexsort(P.T)], r)
        if (i // 3) % 2 == 0:
            _history(rng, rec, s, ("volume", "surface_area", "mean_curvature"), "polyhedron")
        if i < 6:
            rec.sample({"class": "ConvexSpheropolyhedron", "kind": c["kind"], "n": len(P), "radius": r})
        return
    rec.cls("convex3d")
    try:
        s = cs.ConvexPolyhedron(P.copy())
    except Exception as e:
        rec.note("construct-failed (judged by C15): " + type(e).__name__)
        return
    _companion(rng, rec, cs, "ConvexPolyhedron")
    for m in ("mean_curvature", "tau", "asphericity", "iq"):
        try:
            getattr(s, m)
        except Exception as e:
            rec.violation("ConvexPolyhedron." + m, f"ConvexPolyhedron.{m}/raises-{type(e).__name__}", {"V": P, "exc": repr(e)})
    with contracts.quiet():
        nbs = [(a, int(b)) for a in range(s.num_faces) for b in s.neighbors[a] if b > a]
    for t in rng.choice(len(nbs), size=min(8, len(nbs)), replace=False):
        fa, fb = nbs[int(t)]
        try:
            s.get_dihedral(fa, fb)
        except Exception as e:
            rec.violation("ConvexPolyhedron.get_dihedral", f"ConvexPolyhedron.get_dihedral/raises-{type(e).__name__}", {"V": P, "exc": repr(e)})
    # non-neighbours must be refused
    with contracts.quiet():
        non = [(a, b) for a in range(s.num_faces) for b in range(s.num_faces) if a != b and b not in s.neighbors[a]]
    if non:
        fa, fb = non[int(rng.integers(len(non)))]
        try:
            s.get_dihedral(fa, fb)
            rec.violation("ConvexPolyhedron.get_dihedral", "ConvexPolyhedron.get_dihedral/accepts-non-neighbours", {"V": P, "faces": (fa, fb)})
        except ValueError:
            rec.ok("ConvexPolyhedron.get_dihedral")
    if any(len(f) > 3 for f in C["h"].facets) or c["offset_ratio"] > 0:
        rec.nontriv(P[np.lexsort(P.T)], "descriptors")
    if (i // 3) % 2 == 0:
        _history(rng, rec, s, ("volume", "mean_curvature", "tau", "asphericity", "iq"), None)
    if i < 6:
        rec.sample({"class": "ConvexPolyhedron", "kind": c["kind"], "n": len(P)})

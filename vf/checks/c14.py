"""C14 -- distance_to_surface is the radial distance from the centre to the boundary.

Monitor: postcondition on ``distance_to_surface`` of Circle, Ellipse, ConvexPolygon and
ConvexSpheropolygon (every call, including the inner ConvexPolygon call the spheropolygon
makes); argument array must be unchanged.  Oracle O-radial: ray/edge intersection from the
oracle centroid (polygons), bisection on the Euclidean distance to the core (spheropolygons),
the quadratic (ellipse)."""

import math

import numpy as np

from .. import aging, contracts, gen, geom, points

PROPERTY = "C14"
RULE = ("Convex polygons in the xy-plane (regular and irregular, 3-30 vertices, exactly horizontal/vertical edges, any in-plane "
        "rotation and offset, any input order), rounding radii 0..10 core sizes, circles and ellipses (any axes/centre) x G-theta: "
        "uniform in [-4pi,4pi], vertex directions (+2 pi k), multiples of pi/4 and one ulp either side.  Non-trivial = irregular "
        "or off-origin polygon, or radius > 0, or a != b, or angles outside [0,2pi); distinct = SHA-1 of shape + angle digest.")
ASSUMPTIONS = ["centre = centroid of the shape (core polygon's centroid for spheropolygons), as the statement says",
               "tolerance 1e-9*size (bisection oracle converged to 1e-13 relative)"]
ANCHORS = ["coxeter.shapes.convex_polygon:ConvexPolygon.distance_to_surface",
           "coxeter.shapes.convex_spheropolygon:ConvexSpheropolygon.distance_to_surface",
           "coxeter.shapes.convex_spheropolygon:ConvexSpheropolygon._get_outward_unit_normal",
           "coxeter.shapes.circle:Circle.distance_to_surface", "coxeter.shapes.ellipse:Ellipse.distance_to_surface"]
REQUIRED_MONITORS = ["Circle.distance_to_surface", "Ellipse.distance_to_surface", "ConvexPolygon.distance_to_surface",
                     "ConvexSpheropolygon.distance_to_surface", "argument-unchanged"]
REQUIRED_CLASSES = ["poly:regular", "poly:irregular", "poly:axis-aligned", "sphero:r=0", "sphero:r>0", "Ellipse", "Circle",
                    "angles:ndarray:f", "angles:ndarray:i", "angles:list:int", "angles:list:float", "angles:tuple:float", "history:aged-object", "curved:extreme-units", "normal:+z", "normal:-z", "angles:2-D", "poly:extreme-units"]


def ncases(tier):
    return 1200 if tier == "quick" else 24000


def core_distance(xy, pts):
    """Euclidean distance from pts to the convex polygon xy (0 inside)."""
    ins, dist = geom.point_in_polygon(xy, pts)
    return np.where(ins, 0.0, dist)


def sphero_radial(xy, cen, r, theta):
    u = np.column_stack((np.cos(theta), np.sin(theta)))
    lo = np.zeros(len(theta))
    hi = np.full(len(theta), 2 * (np.linalg.norm(xy - cen, axis=1).max() + r) + 1.0)
    for _ in range(70):
        mid = (lo + hi) / 2
        d = core_distance(xy, cen + mid[:, None] * u)
        inside = d <= r
        lo = np.where(inside, mid, lo)
        hi = np.where(inside, hi, mid)
    return (lo + hi) / 2


def setup(rec, tier):
    import coxeter.shapes as cs

    def theta_of(a, k):
        return np.asarray(a[0] if a else k.get("angles"), float)

    def common(mon, s, th, res, want, size, mech, wit):
        res = np.asarray(res, float)
        if res.shape != th.shape:
            rec.violation(mon, mech + "/result-shape", lambda: dict(wit(), got_shape=res.shape, want_shape=th.shape))
            return
        res, th, want = res.ravel(), np.asarray(th, float).ravel(), np.asarray(want, float).ravel()      # arrays of any rank, judged element-wise
        tol = 1e-9 * size
        bad = ~(np.abs(res - want) <= tol)
        rec.ok(mon, int((~bad).sum()))
        rec.ratio(mon, float(np.nanmax(np.abs(res - want))) if np.all(np.isfinite(res)) else 1e300, tol)
        if bad.any():
            outside = (th < 0) | (th >= 2 * np.pi)
            nan = ~np.isfinite(res)
            groups = {"nan-for-angle-outside-[0,2pi)": bad & nan & outside, "nan": bad & nan & ~outside,
                      "wrong-distance": bad & ~nan}
            for tag, m in groups.items():
                if m.any():
                    j = int(np.nonzero(m)[0][0])
                    rec.violation(mon, f"{mech}/{tag}", lambda j=j: dict(wit(), theta=float(th[j]), got=float(res[j]), want=float(want[j]),
                                                                        count=int(m.sum())))
                    rec.viol_count[f"{mech}/{tag}"] += int(m.sum()) - 1
                    rec.evals[mon] += int(m.sum()) - 1

    def circle_post(s, a, k, res, tok):
        th = theta_of(a, k)
        r = float(s.radius)
        common("Circle.distance_to_surface", s, th, res, np.full(th.shape, r), r, "Circle.distance_to_surface", lambda: {"radius": r})

    def ellipse_post(s, a, k, res, tok):
        th = theta_of(a, k)
        aa, bb = float(s.a), float(s.b)
        want = aa * bb / np.sqrt((bb * np.cos(th)) ** 2 + (aa * np.sin(th)) ** 2)
        common("Ellipse.distance_to_surface", s, th, res, want, max(aa, bb), "Ellipse.distance_to_surface", lambda: {"a": aa, "b": bb})

    def poly_facts(s):
        V = np.asarray(s.vertices, float)
        nrm = np.asarray(s.normal, float)
        E = geom.poly3d_exact(V, nrm)
        return V, E

    def poly_post(s, a, k, res, tok):
        th = theta_of(a, k)
        V, E = poly_facts(s)
        if not (np.all(np.abs(V[:, 2] - V[0, 2]) <= 1e-12 * (1 + np.abs(V).max())) and abs(abs(E["frame"][2][2]) - 1) < 1e-12):
            rec.note("polygon not in the xy-plane, not judged")
            return
        # (a polygon in the xy-plane whose normal is -z lies in the xy-plane too: the statement's d(cos theta, sin theta) is in
        # that plane's coordinates whatever side the polygon is looked at from)
        rec.cls("normal:" + ("+z" if E["frame"][2][2] > 0 else "-z"))
        xy = V[:, :2]
        cen = E["centroid"][:2]
        want = geom.ray_polygon_distance(xy, cen, th.ravel()).reshape(th.shape)
        size = gen.diameter(V)
        common("ConvexPolygon.distance_to_surface", s, th, res, want, size, "ConvexPolygon.distance_to_surface",
               lambda: {"vertices": V})

    def sphero_post(s, a, k, res, tok):
        th = theta_of(a, k)
        V = np.asarray(s.vertices, float)
        nrm = np.asarray(s.normal, float)
        E = geom.poly3d_exact(V, nrm)
        if not (np.all(V[:, 2] == V[0, 2]) and abs(E["frame"][2][2]) > 1 - 1e-12):
            rec.note("spheropolygon not in the xy-plane, not judged")
            return
        rec.cls("normal:" + ("+z" if E["frame"][2][2] > 0 else "-z"))
        r = float(s.radius)
        xy = V[:, :2]
        if geom.poly2d_moments(xy)[0] < 0:          # counter-clockwise in the plane's own coordinates for the oracle
            xy = xy[::-1]
        cen = E["centroid"][:2]
        want = sphero_radial(xy, cen, r, th.ravel()).reshape(th.shape)
        size = gen.diameter(V) + r
        _, _, (iyy, ixx, _) = geom.poly2d_moments(xy - cen)
        regular = abs(iyy - ixx) < 1e-9 * (iyy + ixx) and np.ptp(np.linalg.norm(xy - cen, axis=1)) < 1e-9 * size
        common("ConvexSpheropolygon.distance_to_surface", s, th, res, want, size,
               "ConvexSpheropolygon.distance_to_surface/" + ("regular-core" if regular else "irregular-core") + ("/r=0" if r == 0 else ""),
               lambda: {"vertices": V, "radius": r})

    def pre(s, a, k):
        arr = a[0] if a else k.get("angles")
        return (arr, np.array(arr, copy=True)) if isinstance(arr, np.ndarray) else None

    def wrap(post):
        def p(s, a, k, res, tok):
            if tok is not None:
                arr, before = tok
                same = arr.shape == before.shape and np.array_equal(arr, before, equal_nan=True)
                rec.check("argument-unchanged", same, f"{type(s).__name__}.distance_to_surface/modifies-argument", {"class": type(s).__name__})
                if not same:
                    a = (before,) + tuple(a[1:])
            post(s, a, k, res, tok)
        return p

    contracts.hook(cs.Circle, "distance_to_surface", pre=pre, post=wrap(circle_post))
    contracts.hook(cs.Ellipse, "distance_to_surface", pre=pre, post=wrap(ellipse_post))
    contracts.hook(cs.ConvexPolygon, "distance_to_surface", pre=pre, post=wrap(poly_post))
    contracts.hook(cs.ConvexSpheropolygon, "distance_to_surface", pre=pre, post=wrap(sphero_post))
    return {"cs": cs}


def run_case(i, rng, rec, tier, state):
    cs = state["cs"]
    mode = i % 4
    nth = 120
    if mode in (0, 1):
        u = rng.random()
        if u < 0.3:
            n = int(rng.integers(3, 31))
            xy, pk = gen.convex_polygon_2d(rng, n, regular=True, axis_aligned=bool(rng.random() < 0.5)), "regular"
        elif u < 0.5:
            xy, pk = gen.convex_polygon_2d(rng, axis_aligned=True), "axis-aligned"
        else:
            xy, pk = gen.convex_polygon_2d(rng, int(rng.integers(3, 31)), regular=False), "irregular"
        xy = xy * float(np.exp(rng.uniform(-1.5, 1.5)))
        u = gen.unit_factor(rng)
        if u != 1.0:
            xy = xy * u              # nanometres written in metres ... (offsets below are relative to the size)
            rec.cls("poly:extreme-units")
        if pk != "axis-aligned" and rng.random() < 0.7:
            t = rng.uniform(0, 2 * np.pi)
            xy = xy @ np.array([[math.cos(t), -math.sin(t)], [math.sin(t), math.cos(t)]]).T
        offmode = rng.random()
        if offmode < 0.6:
            xy = xy + rng.uniform(-4, 4, size=2) * float(np.ptp(xy))
        rec.cls("poly:" + pk)
        E = geom.poly3d_exact(np.column_stack((xy, np.zeros(len(xy)))), [0, 0, 1])     # xy is still in cyclic order here
        cen = E["centroid"][:2]
        vd = np.arctan2(xy[:, 1] - cen[1], xy[:, 0] - cen[0])
        xy = xy[rng.permutation(len(xy))] if rng.random() < 0.5 else xy              # the convex classes accept any input order
        th = points.angles(rng, vd, nth)
        form = rng.random()
        # the polygon lies in the xy-plane; which way its normal points is the caller's (or the constructor's) choice
        narg = [[0, 0, 1], [0, 0, 1], [0, 0, -1], None][int(rng.integers(4))]
        if mode == 0:
            try:
                s = cs.ConvexPolygon(xy.copy(), normal=narg)
            except Exception as e:
                rec.note("construct-failed (judged by C15): " + type(e).__name__)
                return
            cls = "ConvexPolygon"
            info = {"class": cls, "vertices": xy, "kind": pk}
        else:
            size = float(np.ptp(xy, axis=0).max())
            r = 0.0 if rng.random() < 0.15 else float(np.exp(rng.uniform(math.log(1e-2), math.log(10)))) * size
            rec.cls("sphero:r=0" if r == 0 else "sphero:r>0")
            try:
                s = cs.ConvexSpheropolygon(xy.copy(), r, normal=narg)
            except Exception as e:
                rec.note("construct-failed (judged by C15): " + type(e).__name__)
                return
            cls = "ConvexSpheropolygon"
            info = {"class": cls, "vertices": xy, "radius": r, "kind": pk}
    elif mode == 2:
        (r,), _ = gen.axes_case(rng, 1)
        cen, _ = gen.center_case(rng, r, dims=2)
        u = gen.unit_factor(rng)
        if u != 1.0:
            r, cen = r * u, cen * u
            rec.cls("curved:extreme-units")
        cen, carg, cform = gen.centre_form(rng, cen, r)
        rec.cls("centre:" + cform)
        s = cs.Circle(r) if carg is None else cs.Circle(r, carg)
        th = points.angles(rng, None, nth)
        cls = "Circle"
        rec.cls("Circle")
        info = {"class": cls, "radius": r}
    else:
        ax, _ = gen.axes_case(rng, 2)
        cen, _ = gen.center_case(rng, max(ax), dims=2)
        u = gen.unit_factor(rng)
        if u != 1.0:
            ax, cen = [a * u for a in ax], cen * u
            rec.cls("curved:extreme-units")
        cen, carg, cform = gen.centre_form(rng, cen, max(ax))
        rec.cls("centre:" + cform)
        s = cs.Ellipse(ax[0], ax[1]) if carg is None else cs.Ellipse(ax[0], ax[1], carg)
        th = points.angles(rng, np.array([0, np.pi / 2, np.pi, 1.5 * np.pi]), nth)
        cls = "Ellipse"
        rec.cls("Ellipse")
        info = {"class": cls, "axes": ax}
    # one case in four judges an object with a past: reads, in-plane moves, resizes, a semi-axis or the rounding radius
    # assigned through the public API (the postconditions read the *current* vertices / radius / axes / centre)
    if (i // 4) % 4 == 1:
        info["history"], _sib = aging.age_or_sibling(s, rng, allow=("size", "axis", "radius", "move", "core"), inplane=True)
        rec.cls("history:aged-object")
    # the same angles in the other forms an "array of angles" takes: integer arrays (whole radians), lists and tuples
    ints = rng.integers(-12, 13, size=12)
    forms = [th, th[(th >= 0) & (th < 2 * np.pi)], th[:1], ints.astype(np.int64), ints.astype(np.int32),
             [int(v) for v in ints[:6]], th[:16].tolist(), tuple(th[16:24].tolist())] + [a for _, a in points.layouts(th[24:48])]
    # "an array of angles" may have more than one axis (a grid of directions), in C order or as the transpose of one
    grid = th[48:72].reshape(4, 6).copy() if len(th) >= 72 else th[:12].reshape(3, 4).copy()
    forms += [grid, grid.T, np.asfortranarray(grid), th[:8].reshape(2, 2, 2).transpose(2, 0, 1)]
    rec.cls("angles:2-D")
    for arr in forms:
        rec.cls("angles:" + type(arr).__name__ + (":" + arr.dtype.kind if isinstance(arr, np.ndarray) else
                                                  ":" + type(arr[0]).__name__ if len(arr) else ""))
        try:
            s.distance_to_surface(arr)       # as it is (a copy would be C-contiguous); the monitor checks it comes back unchanged
        except Exception as e:
            rec.violation(cls + ".distance_to_surface", f"{cls}.distance_to_surface/raises-{type(e).__name__}", dict(info, exc=repr(e)[:300]))
            break
    rec.nontriv(cls, info.get("vertices", info.get("axes", info.get("radius"))), info.get("radius", 0))
    if i < 8:
        rec.sample(dict(info, n_angles=len(th), first_angles=th[:4]))

"""C19 -- GSD, repr and HOOMD representations round-trip the shape.

Monitor: postconditions on ``gsd_shape_spec`` -> ``from_gsd_type_shapes``, ``__repr__`` ->
``eval``, ``to_json`` and ``to_hoomd`` of all ten classes.  Round trips are compared on the
public construction data (class, vertices as the same cycle / set, faces as cycles, radii,
semi-axes; for repr also centre and normal); the ``to_hoomd`` dict is judged as a whole
against O-solid / O-planar evaluated on the *returned* vertices (centroid at the origin,
volume/area, inertia about the centroid, sweep radius)."""

import warnings

import numpy as np

from .. import aging, contracts, gen, geom

PROPERTY = "C19"
RULE = ("All ten classes from the generators in general position away from the origin (both polygon orientations, non-convex polygons, "
        "tilted polygons, meshes with mixed face degrees); every GSD type string and missing/unknown-type variants; to_json with valid "
        "and unknown attributes.  Non-trivial = off-origin shape or non-convex polygon or spheropolytope; distinct = class + data.")
ASSUMPTIONS = ["a Polygon instance whose vertices happen to be convex may come back from GSD as ConvexPolygon (one type string for both)",
               "eval(repr) may return the general-polytope base class, as the statement allows",
               "a spec with a known type but a missing parameter key raises KeyError today; only missing/unknown *type* is judged",
               "to_hoomd 'vertices' of polygons are the first two coordinates: judged only for polygons in the xy-plane"]
ANCHORS = ["coxeter.shape_getters:from_gsd_type_shapes", "coxeter.shapes.base_classes:Shape.to_json", "coxeter.shapes.polyhedron:Polyhedron.to_hoomd",
           "coxeter.shapes.polygon:Polygon.to_hoomd", "coxeter.shapes.convex_spheropolygon:ConvexSpheropolygon.to_hoomd",
           "coxeter.shapes.convex_spheropolyhedron:ConvexSpheropolyhedron.to_hoomd", "coxeter.shapes.sphere:Sphere.to_hoomd",
           "coxeter.shapes.ellipsoid:Ellipsoid.to_hoomd", "coxeter.shapes.polyhedron:Polyhedron.__repr__", "coxeter.shapes.polygon:Polygon.__repr__"]
REQUIRED_MONITORS = ["gsd-roundtrip", "repr-roundtrip", "gsd-bad-type-ValueError", "to_json", "to_hoomd:keys", "to_hoomd:centred-shape"]
REQUIRED_CLASSES = ["Polygon", "ConvexPolygon", "ConvexSpheropolygon", "ConvexPolyhedron", "ConvexSpheropolyhedron", "Polyhedron", "Circle",
                    "Ellipse", "Sphere", "Ellipsoid", "Polygon:nonconvex"]
HOOMD_KEYS = {
    "Polyhedron": {"vertices", "faces", "centroid", "sweep_radius", "volume", "moment_inertia"},
    "ConvexPolyhedron": {"vertices", "faces", "centroid", "sweep_radius", "volume", "moment_inertia"},
    "Polygon": {"vertices", "centroid", "sweep_radius", "area", "moment_inertia"},
    "ConvexPolygon": {"vertices", "centroid", "sweep_radius", "area", "moment_inertia"},
    "ConvexSpheropolygon": {"vertices", "centroid", "sweep_radius", "area"},
    "ConvexSpheropolyhedron": {"vertices", "centroid", "sweep_radius", "volume"},
    "Sphere": {"diameter", "centroid", "volume", "moment_inertia"},
    "Ellipsoid": {"a", "b", "c", "centroid", "volume", "moment_inertia"},
}


def ncases(tier):
    return 1200 if tier == "quick" else 24000


def cyc_eq_pts(A, B, tol):
    """Same cycle of points up to rotation of the starting vertex."""
    if A.shape != B.shape:
        return False
    d = np.linalg.norm(B - A[0], axis=1)
    k = int(np.argmin(d))
    return bool(np.all(np.abs(np.roll(B, -k, axis=0) - A) <= tol))


def set_eq_pts(A, B, tol):
    if A.shape != B.shape:
        return False
    return all(np.min(np.linalg.norm(B - a, axis=1)) <= tol for a in A) and all(np.min(np.linalg.norm(A - b, axis=1)) <= tol for b in B)


def same_data(cs, s, r, with_center, info):
    """Compare the public construction data of s and r; return a reason string or None."""
    name = type(s).__name__
    with contracts.quiet():
        if hasattr(s, "vertices"):
            A, B = np.asarray(s.vertices, float), np.asarray(r.vertices, float)
            tol = 1e-12 * (1 + np.abs(A).max())
            if isinstance(s, (cs.ConvexPolygon, cs.ConvexSpheropolygon, cs.ConvexPolyhedron, cs.ConvexSpheropolyhedron)):
                ok = set_eq_pts(A, B, tol) if not isinstance(s, (cs.ConvexPolygon, cs.ConvexSpheropolygon)) else (cyc_eq_pts(A, B, tol) or set_eq_pts(A, B, tol))
            elif isinstance(s, cs.Polygon):
                ok = cyc_eq_pts(A, B, tol)
            else:
                ok = A.shape == B.shape and bool(np.all(np.abs(A - B) <= tol))
            if not ok:
                return "vertices differ"
            if type(s) is cs.Polyhedron or (isinstance(s, cs.Polyhedron) and type(r) is cs.Polyhedron and not isinstance(s, cs.ConvexPolyhedron)):
                fa = [[int(i) for i in f] for f in s.faces]
                fb = [[int(i) for i in f] for f in r.faces]

                def canon(f):
                    k = f.index(min(f))
                    return tuple(f[k:] + f[:k])
                if sorted(map(canon, fa)) != sorted(map(canon, fb)):
                    return "faces differ"
            if isinstance(s, cs.ConvexPolyhedron) and type(r) is cs.Polyhedron:
                # base-class result of eval(repr): faces given as index lists into the same vertices
                pa = sorted(tuple(sorted(map(tuple, np.round(A[[int(i) for i in f]], 10)))) for f in s.faces)
                pb = sorted(tuple(sorted(map(tuple, np.round(B[[int(i) for i in f]], 10)))) for f in r.faces)
                if pa != pb:
                    return "faces differ"
            if hasattr(s, "radius") and float(s.radius) != float(r.radius):
                return "rounding radius differs"
            if with_center and hasattr(s, "normal") and hasattr(r, "normal"):
                if not np.allclose(np.asarray(s.normal, float), np.asarray(r.normal, float), atol=1e-12):
                    return "normal differs"
            return None
        for a in ("radius", "a", "b", "c"):
            if hasattr(type(s), a) and float(getattr(s, a)) != float(getattr(r, a)):
                return f"{a} differs"
        if with_center and not np.array_equal(np.asarray(s.centroid, float), np.asarray(r.centroid, float)):
            return "centre differs"
    return None


def setup(rec, tier):
    import coxeter
    import coxeter.shapes as cs

    return {"cs": cs, "coxeter": coxeter}


def make_shape(cs, rng, which):
    if which in ("Polygon", "ConvexPolygon", "ConvexSpheropolygon"):
        c = gen.polygon_case(rng, kind=("convex" if which != "Polygon" else None), unit_frac=0.12)
        V = c["V"]
        if which != "Polygon" and not c["convex"]:
            xy = gen.convex_polygon_2d(rng)
            V = np.column_stack((xy + rng.uniform(-3, 3, size=2), np.zeros(len(xy))))
            c = dict(c, normal_arg=None, convex=True, tilted=False, ccw=True)
        na = None if c["normal_arg"] is None else np.array(c["normal_arg"])
        if which == "Polygon":
            return cs.Polygon(V.copy(), normal=na), dict(c, V=V)
        if which == "ConvexPolygon":
            return cs.ConvexPolygon(V.copy(), normal=na), dict(c, V=V)
        return cs.ConvexSpheropolygon(V.copy(), float(rng.choice([0.0, 0.3, 2.5])), normal=na), dict(c, V=V)
    if which in ("ConvexPolyhedron", "ConvexSpheropolyhedron"):
        c = gen.convex_case(rng, tabulated_frac=0.1)
        P = c["P"]
        if len(P) > 30:
            P = P[:30]
            P = P[gen.strict_hull_vertices(P)]
        if "unit" not in c and not c.get("exact") and rng.random() < 0.1:
            # a few more solids in very small units, off the origin by about their own size (nanoparticles in metres):
            # "is it centred?" shortcuts with an absolute tolerance take these for centred
            P = P * float(10 ** rng.uniform(-10, -8))
            c = dict(c, unit="tiny")
        if which == "ConvexPolyhedron":
            return cs.ConvexPolyhedron(P.copy()), c
        return cs.ConvexSpheropolyhedron(P.copy(), float(rng.choice([0.0, 0.25, 3.0]))), c
    if which == "Polyhedron":
        c = gen.mesh_case(rng)
        if rng.random() < 0.1:
            c = dict(c, V=c["V"] * float(10 ** rng.uniform(-10, -8)), unit="tiny")
        return cs.Polyhedron(c["V"].copy(), gen.index_form(rng, c["faces"], len(c["V"]))[1], faces_are_convex=True), c
    k = {"Circle": 1, "Ellipse": 2, "Sphere": 1, "Ellipsoid": 3}[which]
    ax, _ = gen.axes_case(rng, k)
    cen, _ = gen.center_case(rng, max(ax), dims=2 if which in ("Circle", "Ellipse") else 3)
    if not np.any(cen):
        cen = np.array([1.5, -0.5, 0.0 if which in ("Circle", "Ellipse") else 2.0])
    return getattr(cs, which)(*ax, cen), {"axes": ax, "center": cen}


def check_hoomd(rec, cs, s, which, info, c):
    try:
        with warnings.catch_warnings():
            warnings.simplefilter("ignore")
            d = s.to_hoomd()
    except (NotImplementedError, AttributeError) as e:
        if not hasattr(type(s), "to_hoomd"):
            rec.note(f"{which}: to_hoomd not provided")
            return
        rec.violation("to_hoomd:keys", f"{which}.to_hoomd/raises-{type(e).__name__}", dict(info, exc=repr(e)[:200]))
        return
    except Exception as e:
        rec.violation("to_hoomd:keys", f"{which}.to_hoomd/raises-{type(e).__name__}", dict(info, exc=repr(e)[:200]))
        return
    want = HOOMD_KEYS[which]
    rec.check("to_hoomd:keys", set(d) == want, f"{which}.to_hoomd/keys-differ-from-documented", lambda: dict(info, got=sorted(d), want=sorted(want)))
    if set(d) != want:
        return
    cen = np.asarray(d["centroid"], float)
    # "zero" is relative to the size of the shape (a solid of size 1e6 is centred to 1e-9 at best)
    if "vertices" in info:
        size = float(np.ptp(np.asarray(info["vertices"], float), axis=0).max())
    else:
        size = max(float(info.get(k, 0.0)) for k in ("radius", "a", "b", "c"))
    rec.check("to_hoomd:centred-shape", cen.shape == (3,) and bool(np.all(np.abs(cen) <= 1e-9 * max(size, 1e-300))),
              f"{which}.to_hoomd/centroid-key-not-zero", lambda: dict(info, centroid=cen, size=size))
    with contracts.quiet():
        if which in ("Polyhedron", "ConvexPolyhedron", "ConvexSpheropolyhedron"):
            V = np.array(d["vertices"], float)
            if which == "ConvexSpheropolyhedron":
                faces = [list(f) for f in geom.hull_facets(V).facets]
                r = float(s.radius)
            else:
                faces = [[int(i) for i in f] for f in d["faces"]]
                r = 0.0
            vol, c0, I0 = geom.solid_exact(geom.faces_to_tris(V, faces), ref=V.mean(0))
            L = gen.diameter(V)
            rec.check("to_hoomd:centred-shape", bool(np.all(np.abs(c0) <= 1e-9 * L)), f"{which}.to_hoomd/vertices-not-centred-at-origin",
                      lambda: dict(info, centroid_of_returned_vertices=c0, diameter=L))
            if which != "ConvexSpheropolyhedron":
                rec.close("to_hoomd:centred-shape", float(d["volume"]), vol, 1e-9 * L ** 3, f"{which}.to_hoomd/volume-not-of-returned-shape", lambda: info)
                Ic = I0 - vol * (float(c0 @ c0) * np.eye(3) - np.outer(c0, c0))
                rec.close("to_hoomd:centred-shape", np.asarray(d["moment_inertia"], float), Ic, 1e-8 * vol * L ** 2,
                          f"{which}.to_hoomd/moment_inertia-not-about-the-centroid", lambda: info)
            else:
                rec.close("to_hoomd:centred-shape", float(d["volume"]), float(s.volume), 1e-9 * abs(float(s.volume)), f"{which}.to_hoomd/volume-differs", lambda: info)
            rec.check("to_hoomd:centred-shape", float(d["sweep_radius"]) == r, f"{which}.to_hoomd/sweep-radius-wrong", lambda: dict(info, got=d["sweep_radius"]))
            # ... and that one centred shape is *the shape translated*: vertex for vertex the shape's own, minus its centroid
            # (the centroid by the oracle, from the shape's current vertices and the exported faces)
            Vs = np.asarray(s.vertices, float)
            if Vs.shape == V.shape:
                _, cs_, _ = geom.solid_exact(geom.faces_to_tris(Vs, faces), ref=Vs.mean(0))
                Ls = gen.diameter(Vs) + float(np.linalg.norm(cs_))
                rec.check("to_hoomd:centred-shape", bool(np.all(np.abs(V - (Vs - cs_)) <= 1e-9 * Ls)), f"{which}.to_hoomd/vertices-not-the-shape-translated",
                          lambda: dict(info, returned=V[:6], shape_minus_centroid=(Vs - cs_)[:6]))
            else:
                rec.violation("to_hoomd:centred-shape", f"{which}.to_hoomd/vertices-shape", dict(info, shape=V.shape))
        elif which in ("Polygon", "ConvexPolygon", "ConvexSpheropolygon"):
            Vs = np.asarray(s.vertices, float)
            nrm = np.asarray(s.normal, float)
            if abs(abs(nrm[2]) - 1) > 1e-12 or np.ptp(Vs[:, 2]) > 0:
                rec.note("to_hoomd of a tilted polygon: 2-D vertices not judged")
                return
            V2 = np.array(d["vertices"], float)
            if V2.ndim != 2 or V2.shape[1] not in (2, 3) or len(V2) != len(Vs):
                rec.violation("to_hoomd:centred-shape", f"{which}.to_hoomd/vertices-shape", dict(info, shape=V2.shape))
                return
            A, (cx, cy), (iyy, ixx, ixy) = geom.poly2d_moments(V2[:, :2])
            L = gen.diameter(Vs)
            rec.check("to_hoomd:centred-shape", abs(cx) <= 1e-9 * L and abs(cy) <= 1e-9 * L, f"{which}.to_hoomd/vertices-not-centred-at-origin",
                      lambda: dict(info, centroid_of_returned_vertices=(cx, cy), diameter=L))
            if which != "ConvexSpheropolygon":
                # that one centred shape is *the shape translated*: vertex for vertex the polygon's own xy, minus its centroid
                _, (sx_, sy_), _ = geom.poly2d_moments(Vs[:, :2] - Vs[0, :2])
                want2 = Vs[:, :2] - (Vs[0, :2] + np.array([sx_, sy_]))
                Ls = L + float(np.linalg.norm(Vs[0, :2] + np.array([sx_, sy_])))
                rec.check("to_hoomd:centred-shape", bool(np.all(np.abs(V2[:, :2] - want2) <= 1e-9 * Ls)), f"{which}.to_hoomd/vertices-not-the-shape-translated",
                          lambda: dict(info, returned=V2[:6], shape_minus_centroid=want2[:6], normal=nrm))
                rec.close("to_hoomd:centred-shape", float(d["area"]), abs(A), 1e-9 * L * L, f"{which}.to_hoomd/area-not-of-returned-shape", lambda: info)
                Jc = (iyy - abs(A) * cy * cy) + (ixx - abs(A) * cx * cx)
                mi = np.asarray(d["moment_inertia"], float)
                rec.check("to_hoomd:centred-shape", mi.shape == (3, 3) and abs(mi[2, 2] - Jc) <= 1e-8 * abs(A) * L * L,
                          f"{which}.to_hoomd/moment_inertia-not-about-the-centroid", lambda: dict(info, got=mi, want_zz=Jc))
                rec.check("to_hoomd:centred-shape", float(d["sweep_radius"]) == 0.0, f"{which}.to_hoomd/sweep-radius-wrong", lambda: info)
            else:
                rec.check("to_hoomd:centred-shape", float(d["sweep_radius"]) == float(s.radius), f"{which}.to_hoomd/sweep-radius-wrong", lambda: info)
                rec.close("to_hoomd:centred-shape", float(d["area"]), float(s.area), 1e-12 * float(s.area), f"{which}.to_hoomd/area-differs", lambda: info)
        elif which == "Sphere":
            r = float(s.radius)
            vol = 4 / 3 * np.pi * r ** 3
            ok = d["diameter"] == 2 * r and abs(d["volume"] - vol) <= 1e-12 * vol and np.allclose(d["moment_inertia"], np.eye(3) * 0.4 * vol * r * r, rtol=1e-12, atol=0)
            rec.check("to_hoomd:centred-shape", bool(ok), "Sphere.to_hoomd/values-not-of-the-centred-sphere", lambda: dict(info, got=d))
        elif which == "Ellipsoid":
            a, b, cc = float(s.a), float(s.b), float(s.c)
            vol = 4 / 3 * np.pi * a * b * cc
            Ic = np.diag([b * b + cc * cc, a * a + cc * cc, a * a + b * b]) * vol / 5
            ok = (d["a"], d["b"], d["c"]) == (a, b, cc) and abs(d["volume"] - vol) <= 1e-12 * vol and np.allclose(d["moment_inertia"], Ic, rtol=1e-12, atol=1e-300)
            rec.check("to_hoomd:centred-shape", bool(ok), "Ellipsoid.to_hoomd/values-not-of-the-centred-ellipsoid", lambda: dict(info, got=d))


def run_case(i, rng, rec, tier, state):
    cs, coxeter = state["cs"], state["coxeter"]
    classes = ["Polygon", "ConvexPolygon", "ConvexSpheropolygon", "ConvexPolyhedron", "ConvexSpheropolyhedron", "Polyhedron", "Circle",
               "Ellipse", "Sphere", "Ellipsoid"]
    which = classes[i % len(classes)]
    try:
        s, c = make_shape(cs, rng, which)
    except Exception as e:
        rec.note("construct-failed (judged by C15): " + type(e).__name__)
        return
    rec.cls(which)
    if which == "Polygon" and not c.get("convex", True):
        rec.cls("Polygon:nonconvex")
    info = {"class": which}
    with contracts.quiet():
        for a in ("vertices", "radius", "a", "b", "c", "centroid", "normal"):
            try:
                v = getattr(s, a)
                info[a] = np.array(v, copy=True) if isinstance(v, np.ndarray) else v     # never an alias of internal state
            except Exception:
                pass
        if which == "Polyhedron":
            info["faces"] = [[int(x) for x in f] for f in s.faces]
    dims = 2 if which in ("Circle", "Ellipse", "Polygon", "ConvexPolygon", "ConvexSpheropolygon") else 3
    # every representation is taken up to three times from the same object: a representation taken after an earlier
    # export (to_hoomd moves the shape to the origin and back) still has to describe the shape
    rounds = 3 if (i // len(classes)) % 2 == 0 else 1
    rec.cls(f"rounds:{rounds}")
    for rnd in range(rounds):
        # --- GSD round trip ------------------------------------------------------
        try:
            spec = s.gsd_shape_spec
            r = coxeter.from_gsd_type_shapes(spec, dimensions=dims)
            okcls = type(r) is type(s) or (type(s) is cs.Polygon and type(r) is cs.ConvexPolygon and c.get("convex", False))
            why = None if not okcls else same_data(cs, s, r, False, info)
            rec.check("gsd-roundtrip", okcls and why is None, f"{which}.gsd_shape_spec/round-trip-" + ("class-differs" if not okcls else str(why).replace(" ", "-")),
                      lambda: dict(info, spec_type=spec.get("type"), result=type(r).__name__))
            # the other dimensionality must give the other class for spheres/ellipsoids
            if which in ("Circle", "Sphere", "Ellipse", "Ellipsoid"):
                other = coxeter.from_gsd_type_shapes(dict(spec, c=spec.get("c", 1.0)) if which == "Ellipse" else spec, dimensions=5 - dims)
                want = {"Circle": "Sphere", "Sphere": "Circle", "Ellipse": "Ellipsoid", "Ellipsoid": "Ellipse"}[which]
                rec.check("gsd-roundtrip", type(other).__name__ == want, f"{which}.gsd_shape_spec/dimensions-argument-ignored", lambda: dict(info, got=type(other).__name__))
        except Exception as e:
            rec.violation("gsd-roundtrip", f"{which}.gsd_shape_spec/round-trip-raises-{type(e).__name__}", dict(info, exc=repr(e)[:300]))
            spec = None
        if spec is not None and i % 3 == 0 and rnd == 0:
            for bad in ({k: v for k, v in spec.items() if k != "type"}, dict(spec, type="NoSuchType"), dict(spec, type=None)):
                try:
                    coxeter.from_gsd_type_shapes(bad, dimensions=dims)
                    rec.violation("gsd-bad-type-ValueError", "from_gsd_type_shapes/accepts-missing-or-unknown-type", {"spec_keys": sorted(bad), "type": bad.get("type", "<missing>")})
                except ValueError:
                    rec.ok("gsd-bad-type-ValueError")
                except Exception as e:
                    rec.violation("gsd-bad-type-ValueError", f"from_gsd_type_shapes/bad-type-raises-{type(e).__name__}", {"type": bad.get("type", "<missing>")})
        # --- repr round trip -----------------------------------------------------
        ns = {"coxeter": coxeter, "array": np.array, "np": np, "numpy": np, "int32": np.int32, "int64": np.int64, "float64": np.float64,
              "int8": np.int8, "int16": np.int16, "uint8": np.uint8, "uint16": np.uint16, "uint32": np.uint32, "uint64": np.uint64,
              "nan": float("nan"), "inf": float("inf")}
        try:
            text = repr(s)
            r = eval(text, ns)      # what a user pasting the repr has
            okcls = type(r) is type(s) or (isinstance(s, type(r)) and type(r) in (cs.Polyhedron, cs.Polygon))
            why = None if not okcls else same_data(cs, s, r, True, info)
            rec.check("repr-roundtrip", okcls and why is None, f"{which}.__repr__/round-trip-" + ("class-differs" if not okcls else str(why).replace(" ", "-")),
                      lambda: dict(info, repr=text[:300], result=type(r).__name__))
            rec.check("repr-roundtrip", str(s) == text, f"{which}.__str__/differs-from-repr", lambda: info)
        except Exception as e:
            rec.violation("repr-roundtrip", f"{which}.__repr__/eval-raises-{type(e).__name__}", dict(info, exc=repr(e)[:300]))
        # --- to_json -------------------------------------------------------------
        attrs = [a for a in ("centroid", "vertices", "area", "volume", "radius", "a", "normal", "iq") if hasattr(type(s), a)]
        attrs = [attrs[int(k)] for k in rng.permutation(len(attrs))[: max(1, len(attrs) // 2 + 1)]]
        try:
            with warnings.catch_warnings():
                warnings.simplefilter("ignore")
                d = s.to_json(list(attrs))
            ok = list(d) == attrs
            if ok:
                with contracts.quiet():
                    for a in attrs:
                        try:
                            ok = ok and np.array_equal(np.asarray(d[a]), np.asarray(getattr(s, a)))
                        except Exception:
                            ok = False
            rec.check("to_json", bool(ok), f"{which}.to_json/not-exactly-the-requested-attributes", lambda: dict(info, requested=attrs, got=list(d)))
        except NotImplementedError:
            rec.note(f"{which}.to_json: a requested attribute is not provided")
        except Exception as e:
            rec.violation("to_json", f"{which}.to_json/raises-{type(e).__name__}", dict(info, requested=attrs, exc=repr(e)[:200]))
        try:
            s.to_json(["no_such_attribute"])
            rec.violation("to_json", f"{which}.to_json/unknown-attribute-accepted", info)
        except AttributeError:
            rec.ok("to_json")
        except Exception as e:
            rec.violation("to_json", f"{which}.to_json/unknown-attribute-raises-{type(e).__name__}", info)
        # --- to_hoomd ------------------------------------------------------------
        if which in HOOMD_KEYS:
            check_hoomd(rec, cs, s, which, info, c)
        # between the rounds of every other three-round case the object is resized / moved / given another semi-axis through
        # its public setters: the representations taken afterwards have to describe the shape as it is *now*
        if rounds == 3 and rnd < 2 and (i // len(classes)) % 4 == 0:
            hist = aging.age(s, rng, steps=1, allow=("size", "axis", "radius", "move"), reads=False)
            rec.cls("history:changed-between-rounds")
            with contracts.quiet():
                for a in ("vertices", "radius", "a", "b", "c", "centroid", "normal"):
                    try:
                        v = getattr(s, a)
                        info[a] = np.array(v, copy=True) if isinstance(v, np.ndarray) else v
                    except Exception:
                        pass
            info["history"] = info.get("history", []) + hist
    rec.nontriv(which, info.get("vertices", info.get("a", info.get("radius"))), info.get("centroid"))
    if i < 10:
        rec.sample({"class": which, "repr": repr(s)[:160]})

"""C04 -- Polygon area, centroid, moments and inertia tensor are exact.

Monitor: postconditions on the getters of the real Polygon class (hence ConvexPolygon),
evaluated on every call, including the ones coxeter makes internally (Polygon built
inside the form factor, polar moment read inside inertia_tensor on the transient
centred state).  Oracle: Gram-Schmidt frame from the *stated* normal + shoelace
integrals (O-planar); exact rationals for lattice polygons in the xy-plane."""

from fractions import Fraction

import numpy as np

from .. import aging, contracts, gen, geom

PROPERTY = "C04"
RULE = ("G-poly: certified-simple polygons (star-shaped, comb, spiral, lattice, convex incl. axis-aligned edges), 3-40 "
        "vertices, both orientations, every cyclic shift position, default / explicit +n / explicit -n (non-unit) normals, "
        "xy-plane with offset or random rotation+offset.  Non-trivial = clockwise about its normal, or non-convex, or "
        "tilted, or explicit normal opposing the order; distinct = SHA-1 of rounded vertices+normal.")
ASSUMPTIONS = ["tilted polygons: the individual planar moments depend on an unspecified in-plane frame, only Ix+Iy is judged",
               "polar_moment_inertia is the moment about the normal axis through the origin (docstring), J_c + A|c_inplane|^2",
               "inertia_tensor is J_c n n^T + A(|c|^2 I - c c^T) as the property statement defines it"]
ANCHORS = ["coxeter.shapes.polygon:Polygon.signed_area", "coxeter.shapes.polygon:Polygon.area",
           "coxeter.shapes.polygon:Polygon.perimeter", "coxeter.shapes.polygon:Polygon.centroid",
           "coxeter.shapes.polygon:Polygon.planar_moments_inertia", "coxeter.shapes.polygon:Polygon.inertia_tensor",
           "coxeter.shapes.polygon:_align_points_by_normal", "coxeter.shapes.utils:translate_inertia_tensor",
           "coxeter.shapes.utils:rotate_order2_tensor"]
REQUIRED_MONITORS = ["Polygon.area", "Polygon.signed_area", "Polygon.perimeter", "Polygon.centroid",
                     "Polygon.planar_moments_inertia(xy,+z)", "Polygon.polar_moment_inertia", "Polygon.inertia_tensor",
                     "lattice-exact"]
REQUIRED_CLASSES = ["orient:cw", "orient:ccw", "plane:tilted", "plane:xy", "kind:comb", "kind:star", "kind:lattice",
                    "kind:convex", "kind:spiral", "history:aged-object", "history:sibling-aged", "polygon:far-from-origin", "polygon:extreme-units"]


def ncases(tier):
    return 3000 if tier == "quick" else 80000


def _facts(s):
    V = np.asarray(s.vertices, float)
    n = np.asarray(s.normal, float)
    E = geom.poly3d_exact(V, n)
    E["L"] = float(np.linalg.norm(V, axis=1).max())
    E["d"] = gen.diameter(V)
    E["n"] = n / np.linalg.norm(n)
    # far from the origin for its size (L/d > 1e4): the area is judged against what the input's conditioning allows
    # (eps*L*d for a shoelace over coordinates of magnitude L) with four orders of slack, not the nine digits of L*d
    E["ktol"] = 1e-12 if E["L"] > 1e4 * E["d"] else 1e-9
    return E


def _wit(s, **kw):
    w = {"vertices": np.asarray(s.vertices), "normal": np.asarray(s.normal), "class": type(s).__name__}
    w.update(kw)
    return w


def setup(rec, tier):
    import coxeter.shapes as cs

    P = cs.Polygon

    def tags(E):
        return ("cw" if E["signed_area"] < 0 else "ccw") + ("" if abs(abs(E["n"][2]) - 1) < 1e-12 else "+tilted")

    def area_post(s, a, k, res, tok):
        E = _facts(s)
        rec.close("Polygon.area", float(res), E["area"], E["ktol"] * E["L"] * E["d"], "Polygon.area/" + tags(E), lambda: _wit(s))

    def sarea_post(s, a, k, res, tok):
        E = _facts(s)
        rec.close("Polygon.signed_area", float(res), E["signed_area"], E["ktol"] * E["L"] * E["d"],
                  "Polygon.signed_area/" + tags(E), lambda: _wit(s))

    def per_post(s, a, k, res, tok):
        E = _facts(s)
        rec.close("Polygon.perimeter", float(res), E["perimeter"], 1e-9 * E["perimeter"], "Polygon.perimeter/" + tags(E),
                  lambda: _wit(s))

    def cen_post(s, a, k, res, tok):
        E = _facts(s)
        if E["L"] > 1e3 * E["d"]:
            # more than 1e3 sizes from the origin: first and second moments about that origin are computed in the global frame
            # by coxeter (cancellation eps*(L/d)^2 is inherent to that documented approach; the stated offsets end at ~10
            # sizes); only the translation-invariant measures (area, signed area, perimeter) are judged out there
            rec.note("far from the origin (> 1e3 sizes): centroid and moments not judged")
            return
        got = np.asarray(res, float)
        c, n = E["centroid"], E["n"]
        tol = 1e-9 * E["L"]
        mech = "Polygon.centroid/" + tags(E)
        # model of the known defect: in-plane part (measured from the origin) sign-flipped for clockwise input
        wrong = 2 * np.dot(c, n) * n - c
        if E["signed_area"] < 0 and got.shape == (3,) and np.all(np.abs(got - wrong) <= tol):
            mech = "Polygon.centroid/clockwise-inplane-part-negated"
        rec.close("Polygon.centroid", got, c, tol, mech, lambda: _wit(s))

    def planar_post(s, a, k, res, tok):
        E = _facts(s)
        if E["L"] > 1e3 * E["d"]:
            # more than 1e3 sizes from the origin: first and second moments about that origin are computed in the global frame
            # by coxeter (cancellation eps*(L/d)^2 is inherent to that documented approach; the stated offsets end at ~10
            # sizes); only the translation-invariant measures (area, signed area, perimeter) are judged out there
            rec.note("far from the origin (> 1e3 sizes): centroid and moments not judged")
            return
        n = E["n"]
        got = np.array([float(x) for x in res])
        V = np.asarray(s.vertices, float)
        if n[2] > 1 - 1e-14 and np.all(np.abs(V[:, 2] - V[0, 2]) <= 1e-12 * (1 + E["L"])):
            if E["L"] > 100 * E["d"]:
                # moments about a far origin: the float shoelace loses eps*L^4 - exact rationals of the same doubles instead
                _, _, mom = geom.poly2d_moments([(Fraction(float(x)), Fraction(float(y))) for x, y in V[:, :2]])
                iyy, ixx, ixy = (float(m) for m in mom)
            else:
                _, _, (iyy, ixx, ixy) = geom.poly2d_moments(V[:, :2])
            want = np.array([iyy, ixx, ixy])
            tol = 1e-9 * E["area"] * E["L"] ** 2
            mech = "Polygon.planar_moments_inertia/" + tags(E)
            if abs(got[2] - abs(ixy)) <= tol and ixy < -tol and np.all(np.abs(got[:2] - want[:2]) <= tol):
                mech = "Polygon.planar_moments_inertia/negative-product-moment-returned-as-abs"
            rec.close("Polygon.planar_moments_inertia(xy,+z)", got, want, tol, mech, lambda: _wit(s))
        else:
            rec.note("planar_moments individual values not judged (tilted or -z normal)")

    def polar_post(s, a, k, res, tok):
        E = _facts(s)
        if E["L"] > 1e3 * E["d"]:
            # more than 1e3 sizes from the origin: first and second moments about that origin are computed in the global frame
            # by coxeter (cancellation eps*(L/d)^2 is inherent to that documented approach; the stated offsets end at ~10
            # sizes); only the translation-invariant measures (area, signed area, perimeter) are judged out there
            rec.note("far from the origin (> 1e3 sizes): centroid and moments not judged")
            return
        c, n = E["centroid"], E["n"]
        cpar = c - np.dot(c, n) * n
        want = E["polar_c"] + E["area"] * float(np.dot(cpar, cpar))
        rec.close("Polygon.polar_moment_inertia", float(res), want, 1e-9 * E["area"] * E["L"] ** 2,
                  "Polygon.polar_moment_inertia/" + tags(E), lambda: _wit(s))

    def it_post(s, a, k, res, tok):
        E = _facts(s)
        if E["L"] > 1e3 * E["d"]:
            # more than 1e3 sizes from the origin: first and second moments about that origin are computed in the global frame
            # by coxeter (cancellation eps*(L/d)^2 is inherent to that documented approach; the stated offsets end at ~10
            # sizes); only the translation-invariant measures (area, signed area, perimeter) are judged out there
            rec.note("far from the origin (> 1e3 sizes): centroid and moments not judged")
            return
        got = np.asarray(res, float)
        tol = 1e-8 * E["area"] * E["L"] ** 2
        mech = "Polygon.inertia_tensor/" + tags(E)
        rec.close("Polygon.inertia_tensor", got, E["inertia"], tol, mech, lambda: _wit(s))

    contracts.hook(P, "area", post=area_post)
    contracts.hook(P, "signed_area", post=sarea_post)
    contracts.hook(P, "perimeter", post=per_post)
    contracts.hook(P, "centroid", post=cen_post)
    contracts.hook(P, "planar_moments_inertia", post=planar_post)
    contracts.hook(P, "polar_moment_inertia", post=polar_post)
    contracts.hook(P, "inertia_tensor", post=it_post)
    return {"cs": cs}


MEMBERS = ["area", "signed_area", "perimeter", "centroid", "center", "planar_moments_inertia", "polar_moment_inertia",
           "inertia_tensor"]


def run_case(i, rng, rec, tier, state):
    cs = state["cs"]
    c = gen.polygon_case(rng, far_frac=0.05, unit_frac=0.08)
    if c.get("straight_corner") is not None:
        rec.cls("polygon:straight-corner" + (":first-three-collinear" if c["straight_corner"] == 1 else ""))
    if c["far"]:
        rec.cls("polygon:far-from-origin")
    if c["unit"] != 1.0:
        rec.cls("polygon:extreme-units")
    V = c["V"]
    use_convex = c["convex"] and rng.random() < 0.4
    cls = cs.ConvexPolygon if use_convex else cs.Polygon
    verts = V[:, :2].copy() if (c["xy_plane"] and np.all(V[:, 2] == 0) and rng.random() < 0.3) else V.copy()
    try:
        s = cls(verts, normal=None if c["normal_arg"] is None else np.array(c["normal_arg"]))
    except Exception as e:
        rec.note("construct-failed (judged by C15, not here): " + type(e).__name__)
        return
    rec.cls("orient:" + ("ccw" if c["ccw"] else "cw"))
    rec.cls("plane:" + ("tilted" if c["tilted"] else "xy"))
    rec.cls("kind:" + c["kind"])
    rec.cls("class:" + cls.__name__)
    rec.cls("normal:" + c["normal_mode"])
    for m in MEMBERS:
        try:
            getattr(s, m)
        except Exception as e:
            rec.violation("Polygon." + m, f"Polygon.{m}/raises-{type(e).__name__}", _wit(s, exc=repr(e)))
    # exact rational opinion for lattice polygons lying in the xy-plane
    if c["lattice"] and np.all(V[:, 2] == 0) and np.all(V == np.round(V)):
        Vs = np.asarray(s.vertices, float)
        xy = [(Fraction(int(x)), Fraction(int(y))) for x, y in Vs[:, :2]]
        A, (cx, cy), (iyy, ixx, ixy) = geom.poly2d_moments(xy)
        E = geom.poly3d_exact(Vs, s.normal)
        ok = (abs(float(abs(A)) - E["area"]) <= 1e-12 * float(abs(A)) and abs(float(cx) - E["centroid"][0]) <= 1e-12 * (1 + abs(float(cx)))
              and abs(float(cy) - E["centroid"][1]) <= 1e-12 * (1 + abs(float(cy))))
        rec.check("lattice-exact", ok, "oracle/float-vs-rational-disagree", {"V": Vs})
        with contracts.quiet():
            got_area, got_c = float(s.area), np.asarray(s.centroid, float)
        rec.close("lattice-exact", got_area, float(abs(A)), 1e-9 * E["area"] + 1e-9, "Polygon.area/lattice-exact", lambda: _wit(s))
        if np.asarray(s.normal)[2] > 0:
            sgn = 1 if A > 0 else -1
            rec.check("lattice-exact:orientation", (float(np.sign(_q(s, "signed_area"))) == sgn), "Polygon.signed_area/lattice-sign",
                      lambda: _wit(s))
    # one case in four goes on with the same object (whatever it memoised during the reads above is now at stake): moved,
    # resized through the public setters, to_hoomd, then read again; the postconditions judge against the current vertices
    if i % 4 == 2:
        hist, _sib = aging.age_or_sibling(s, rng, reads=False, inplane=not c["tilted"])
        rec.cls("history:aged-object" if _sib is None else "history:sibling-aged")
        for m in MEMBERS:
            try:
                getattr(s, m)
            except Exception as e:
                rec.violation("Polygon." + m, f"Polygon.{m}/raises-after-history-{type(e).__name__}", _wit(s, exc=repr(e), history=hist))
    nontriv = (not c["ccw"]) or (not c["convex"]) or c["tilted"] or c["normal_mode"] == "minus"
    if nontriv:
        rec.nontriv(np.asarray(s.vertices), np.asarray(s.normal))
    if i < 6:
        rec.sample({"vertices": V, "normal_arg": c["normal_arg"], "kind": c["kind"], "ccw_about_normal": c["ccw"],
                    "tilted": c["tilted"], "class": cls.__name__})


def _q(s, name):
    with contracts.quiet():
        return getattr(s, name)

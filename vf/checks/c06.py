"""C06 -- 2-D point containment equals exact membership.

Monitor: postcondition on ``is_inside`` of Polygon (hence ConvexPolygon), Circle, Ellipse;
relational batch-vs-single check.  Oracle: Gram-Schmidt projection into the polygon's
plane + crossing number with distance-to-boundary margin; quadratic forms for
circle/ellipse (z test judged only for points exactly in plane or clearly off plane)."""

import numpy as np

from .. import aging, contracts, gen, geom, points

PROPERTY = "C06"
MARGIN = 1e-6
RULE = ("G-poly polygons (both orientations, explicit/default normals, xy-plane and tilted planes; points generated in the "
        "plane's frame and mapped to 3-space) and circles/ellipses (a<b, a=b, a>b, any centre) x in-plane points: uniform in the "
        "enlarged bounding box incl. all four quadrants, at distance +-{1e-1,1e-3,1e-5} size from edges/vertices, sharing x or y "
        "with a vertex; (N,2) input for xy polygons; clearly off-plane points for circle/ellipse.  Points within 1e-6 size of "
        "the boundary are not judged.  Non-trivial = clockwise or non-convex or tilted polygon, or a curved shape with "
        "off-origin centre or a != b; distinct = SHA-1 of shape+points.")
ASSUMPTIONS = ["only in-plane points are judged for polygons (the statement's scope)",
               "membership judged only farther than 1e-6*size from the boundary"]
ANCHORS = ["coxeter.shapes.polygon:Polygon.is_inside", "coxeter.shapes.circle:Circle.is_inside",
           "coxeter.shapes.ellipse:Ellipse.is_inside"]
REQUIRED_MONITORS = ["Polygon.is_inside", "Circle.is_inside", "Ellipse.is_inside", "batch-vs-single"]
REQUIRED_CLASSES = ["Polygon:cw", "Polygon:ccw", "Polygon:tilted", "Polygon:(N,2)", "Circle", "Ellipse:a<b", "Ellipse:a>b",
                    "Ellipse:a=b", "quadrant:--", "history:aged-object", "curved:extreme-units", "polygon:far-from-origin"]


def ncases(tier):
    return 1600 if tier == "quick" else 40000


def judge(rec, mon, pts, result, inside, band, size, mechbase, witness, model=None, model_mech=None):
    res = np.asarray(result)
    if res.shape != (len(pts),) or res.dtype != bool:
        rec.violation(mon, mechbase + "/result-shape-or-dtype", lambda: dict(witness(), got_shape=res.shape, dtype=str(res.dtype)))
        return
    judged = band > MARGIN * size
    rec.note("points in boundary band, not judged", int((~judged).sum()))
    bad = judged & (res != inside)
    rec.ok(mon, int(judged.sum()) - int(bad.sum()))
    nz = np.nonzero(bad)[0]
    for t, j in enumerate(nz):
        kind = "false-positive" if res[j] else "false-negative"
        mech = f"{mechbase}/{kind}"
        if model is not None and bool(model[j]) == bool(res[j]) and res[j]:
            mech = model_mech      # exactly what the known defect predicts (a false positive of the box test)
        if t < 3:
            rec.violation(mon, mech, lambda j=j: dict(witness(), point=pts[j], got=bool(res[j]), want=bool(inside[j]),
                                                      boundary_distance=float(band[j])))
        else:
            rec.viol_count[mech] += 1
            rec.evals[mon] += 1


def setup(rec, tier):
    import coxeter.shapes as cs

    def pts_of(a, k):
        p = np.atleast_2d(np.asarray(a[0] if a else k.get("points"), float))
        if p.shape[1] == 2:
            p = np.hstack((p, np.zeros((len(p), 1))))
        return p

    def poly_post(s, a, k, res, tok):
        pts = pts_of(a, k)
        V = np.asarray(s.vertices, float)
        e1, e2, n = geom.plane_frame(s.normal)
        o = V.mean(0)
        size = gen.diameter(V)
        off = np.abs((pts - o) @ n)
        inplane = off <= 1e-9 * (size + np.linalg.norm(o))
        rec.note("off-plane points for polygons, not judged", int((~inplane).sum()))
        xy = np.column_stack(((V - o) @ e1, (V - o) @ e2))
        pq = np.column_stack(((pts - o) @ e1, (pts - o) @ e2))
        inside, dist = geom.point_in_polygon(xy, pq)
        band = np.where(inplane, dist, 0.0)
        a_, _, _ = geom.poly2d_moments(xy)
        tag = ("cw" if a_ < 0 else "ccw") + ("" if abs(abs(n[2]) - 1) < 1e-12 else "+tilted")
        judge(rec, "Polygon.is_inside", pts, res, inside, band, size, "Polygon.is_inside/" + tag,
              lambda: {"vertices": V, "normal": np.asarray(s.normal), "class": type(s).__name__})

    def circle_like(name, axes_of):
        def post(s, a, k, res, tok):
            pts = pts_of(a, k)
            c = np.asarray(s.centroid, float)
            ax = np.asarray(axes_of(s), float)
            d = pts - c
            q = np.sqrt((d[:, 0] / ax[0]) ** 2 + (d[:, 1] / ax[1]) ** 2)
            zin = d[:, 2] == 0
            # off-plane points: the statement quantifies over in-plane points; a point off the plane is judged "outside" only
            # when it is clearly off it in the shape's own units *and* beyond the absolute slack the code documents for its
            # z comparison (np.isclose, 1e-8) - in nanometre units a half-radius offset is inside that slack and is not judged
            zoff = (np.abs(d[:, 2]) > 1e-3 * ax.max()) & (np.abs(d[:, 2]) > 1e-6)
            inside = (q <= 1) & zin
            band = np.where(zin, np.abs(q - 1) * ax.min(), np.where(zoff, np.inf, 0.0))
            quad = ("+" if c[0] >= 0 else "-") + ("+" if c[1] >= 0 else "-")
            model = None
            if name == "Ellipse":
                # model of the known defect: component-wise one-sided test (p-c)/(a,b) <= 1 instead of the quadratic form
                model = (d[:, 0] / ax[0] <= 1) & (d[:, 1] / ax[1] <= 1) & np.isclose(d[:, 2], 0)
            judge(rec, name + ".is_inside", pts, res, inside, band, ax.max(), name + ".is_inside",
                  lambda: {"axes": ax, "center": c}, model=model, model_mech="Ellipse.is_inside/one-sided-componentwise-box-test")
        return post

    contracts.hook(cs.Polygon, "is_inside", post=poly_post)
    contracts.hook(cs.Circle, "is_inside", post=circle_like("Circle", lambda s: (s.radius, s.radius)))
    contracts.hook(cs.Ellipse, "is_inside", post=circle_like("Ellipse", lambda s: (s.a, s.b)))
    return {"cs": cs}


BATCHES = (1, 2, 9, 60, 500)


def run_case(i, rng, rec, tier, state):
    cs = state["cs"]
    which = ["Polygon", "Circle", "Polygon", "Ellipse"][i % 4]
    nb = int(BATCHES[int(rng.integers(len(BATCHES)))])
    info = {"class": which}
    use2 = False
    # one case in four judges an object with a past (reads, moves, resizes, semi-axes assigned through the public API)
    aged = (i // 4) % 4 == 2
    if aged:
        rec.cls("history:aged-object")
    if which == "Polygon":
        c = gen.polygon_case(rng, far_frac=0.05, unit_frac=0.08)
        if c.get("straight_corner") is not None:
            rec.cls("polygon:straight-corner" + (":first-three-collinear" if c["straight_corner"] == 1 else ""))
        if c["far"]:
            rec.cls("polygon:far-from-origin")
        V = c["V"]
        cls = cs.ConvexPolygon if (c["convex"] and rng.random() < 0.4) else cs.Polygon
        try:
            s = cls(V.copy(), normal=None if c["normal_arg"] is None else np.array(c["normal_arg"]))
        except Exception as e:
            rec.note("construct-failed (judged by C15): " + type(e).__name__)
            return
        if aged:
            info["history"], _sib = aging.age_or_sibling(s, rng, inplane=not c["tilted"])
        Vs = np.array(s.vertices, float)
        e1, e2, n = geom.plane_frame(c["normal"])
        o = Vs.mean(0)
        xy = np.column_stack(((Vs - o) @ e1, (Vs - o) @ e2))
        pq = points.points2d(rng, xy, nb)
        pts = o + pq[:, :1] * e1 + pq[:, 1:2] * e2
        if not c["tilted"]:
            # xy-plane: generate in absolute coordinates so that points share x or y with a vertex *exactly*
            # (going through the shifted frame would lose the tie in the last bit)
            pa = points.points2d(rng, Vs[:, :2], nb)
            if c["lattice"] and not aged:
                # lattice polygons: the whole (half-)integer grid of the bounding box - every point ties with vertices
                lo_, hi_ = np.floor(Vs[:, :2].min(0)) - 1, np.ceil(Vs[:, :2].max(0)) + 1
                step = 0.5 if (hi_ - lo_).max() <= 30 else 1.0
                gx, gy = np.meshgrid(np.arange(lo_[0], hi_[0] + step, step), np.arange(lo_[1], hi_[1] + step, step))
                grid = np.column_stack((gx.ravel(), gy.ravel()))
                if len(grid) > 6000:
                    grid = grid[rng.choice(len(grid), size=6000, replace=False)]
                pa = np.vstack((pa, grid))
                rec.cls("Polygon:lattice-grid")
                # the same grid against the same polygon listed in the opposite direction and under the opposite normal
                # (the monitors on is_inside judge these calls too)
                g3 = np.column_stack((grid, np.full(len(grid), Vs[0, 2])))
                for Vr, nr in ((Vs[::-1].copy(), np.asarray(s.normal, float)), (Vs.copy(), -np.asarray(s.normal, float))):
                    try:
                        cs.Polygon(Vr, normal=nr).is_inside(g3.copy())
                    except Exception as e:
                        rec.violation("Polygon.is_inside", f"Polygon.is_inside/raises-{type(e).__name__}", dict(info, exc=repr(e)[:200]))
            pts = np.column_stack((pa, np.full(len(pa), Vs[0, 2])))
            pq = np.column_stack(((pts - o) @ e1, (pts - o) @ e2))
            use2 = bool(np.all(Vs[:, 2] == 0)) and rng.random() < 0.5
        rec.cls("Polygon:" + ("ccw" if c["ccw"] else "cw"))
        rec.cls("Polygon:" + ("tilted" if c["tilted"] else "xy"))
        rec.cls("Polygon:kind:" + c["kind"])
        if use2:
            rec.cls("Polygon:(N,2)")
        info.update(vertices=V, normal_arg=c["normal_arg"], kind=c["kind"], ccw=c["ccw"], tilted=c["tilted"], cls=cls.__name__)
        nontriv = (not c["ccw"]) or (not c["convex"]) or c["tilted"]
    else:
        k = 1 if which == "Circle" else 2
        ax, mode = gen.axes_case(rng, k)
        if which == "Ellipse" and rng.random() < 0.15:
            ax = [ax[0], ax[0]]
        cen, cmode = gen.center_case(rng, max(ax), dims=2)
        if rng.random() < 0.3:
            cen[2] = float(rng.uniform(-2, 2)) * max(ax)
        u = gen.unit_factor(rng)
        if u != 1.0:
            ax, cen = [a * u for a in ax], cen * u
            rec.cls("curved:extreme-units")
        cen, carg, cform = gen.centre_form(rng, cen, max(ax))
        rec.cls("centre:" + cform)
        if carg is None:
            s = cs.Circle(ax[0]) if which == "Circle" else cs.Ellipse(ax[0], ax[1])
        else:
            s = cs.Circle(ax[0], carg) if which == "Circle" else cs.Ellipse(ax[0], ax[1], carg)
        if aged:
            info["history"], _sib = aging.age_or_sibling(s, rng)
            ax = [float(s.radius)] if which == "Circle" else [float(s.a), float(s.b)]
            cen = np.array(s.centroid, float)
        a2 = [ax[0], ax[0]] if which == "Circle" else ax
        n_in = nb
        u = rng.normal(size=(n_in, 2))
        u /= np.linalg.norm(u, axis=1)[:, None]
        rad = np.concatenate((rng.uniform(0, 1.7, size=n_in // 2),
                              1 + rng.choice(points.DELTAS, size=n_in - n_in // 2) * rng.choice([-1, 1], size=n_in - n_in // 2)))
        pts = np.column_stack((cen[0] + u[:, 0] * a2[0] * rad, cen[1] + u[:, 1] * a2[1] * rad, np.full(n_in, cen[2])))
        # bounding-box corners (inside the box, outside the ellipse) and sign-flipped points
        extra = cen + np.array([[0.9 * a2[0], 0.9 * a2[1], 0], [-0.9 * a2[0], -0.9 * a2[1], 0], [-3 * a2[0], -3 * a2[1], 0],
                                [-3 * a2[0], 0.1 * a2[1], 0], [0.1 * a2[0], -3 * a2[1], 0], [0.0, 0.0, 0.5 * max(a2)]])
        pts = np.vstack((pts, extra[: max(1, min(len(extra), nb))]))
        if which == "Circle":
            rec.cls("Circle")
        else:
            rec.cls("Ellipse:" + ("a<b" if ax[0] < ax[1] else ("a>b" if ax[0] > ax[1] else "a=b")))
        rec.cls("quadrant:" + ("+" if cen[0] >= 0 else "-") + ("+" if cen[1] >= 0 else "-"))
        info.update(axes=ax, center=cen)
        nontriv = bool(np.any(cen != 0)) or (which == "Ellipse" and ax[0] != ax[1])
    if which == "Polygon" and c["tilted"]:
        # two-column points are points of the plane z = 0.  A tilted polygon meets that plane in a line; points of that line
        # are in-plane queries like any other, and are handed over the way a 2-D caller would: as (x, y)
        with contracts.quiet():
            n_ = np.asarray(s.normal, float)
        hxy = float(n_[0] ** 2 + n_[1] ** 2)
        if hxy > 1e-6:
            d_ = float(n_ @ Vs[0])
            p0 = np.array([n_[0], n_[1], 0.0]) * d_ / hxy
            t_ = np.cross(n_, [0.0, 0.0, 1.0])
            t_ /= np.linalg.norm(t_)
            sv = (Vs - p0) @ t_
            if (np.abs((Vs - p0) @ np.cross(n_, t_))).min() < 10 * gen.diameter(Vs):
                ss = rng.uniform(sv.min() - 0.2 * np.ptp(sv), sv.max() + 0.2 * np.ptp(sv), size=24)
                line = p0 + ss[:, None] * t_
                rec.cls("Polygon:tilted:(N,2)-points-on-its-trace-in-z=0")
                try:
                    s.is_inside(line[:, :2].copy())
                    s.is_inside(line[0, :2].copy())
                except Exception as e:
                    rec.violation("Polygon.is_inside", f"Polygon.is_inside/raises-{type(e).__name__}", dict(info, exc=repr(e)[:200], form="(N,2) on a tilted polygon"))
    arg = pts[:, :2].copy() if use2 else pts.copy()
    try:
        res = np.asarray(s.is_inside(arg))
    except Exception as e:
        rec.violation(which + ".is_inside", f"{which}.is_inside/raises-{type(e).__name__}", dict(info, exc=repr(e)[:300]))
        return
    # batch-vs-single only for points clear of the boundary band (the statement excludes the band)
    if which == "Polygon":
        _, band = geom.point_in_polygon(xy, pq)
        bsize = gen.diameter(Vs)
    else:
        dd = pts - cen
        qq = np.sqrt((dd[:, 0] / a2[0]) ** 2 + (dd[:, 1] / a2[1]) ** 2)
        band = np.where(dd[:, 2] == 0, np.abs(qq - 1) * min(a2), np.where((np.abs(dd[:, 2]) > 1e-3 * max(a2)) & (np.abs(dd[:, 2]) > 1e-6), np.inf, 0.0))
        bsize = max(a2)
    clear = np.nonzero(band > MARGIN * bsize)[0]
    if len(clear) == 0:
        return
    idx = rng.choice(clear, size=min(5, len(clear)), replace=False)
    for t, j in enumerate(idx):
        form = ["(3,)", "(1,3)", "list"][t % 3]
        p = arg[j]
        a1 = p.copy() if form == "(3,)" else (p[None, :].copy() if form == "(1,3)" else [float(x) for x in p])
        try:
            r1 = np.asarray(s.is_inside(a1))
        except Exception as e:
            rec.violation("batch-vs-single", f"{which}.is_inside/rejects-{form}-input", dict(info, point=p, exc=repr(e)[:300]))
            continue
        ok = r1.shape == (1,) and res.shape == (len(pts),) and bool(r1[0]) == bool(res[j])
        rec.check("batch-vs-single", ok, f"{which}.is_inside/batch-differs-from-single",
                  lambda: dict(info, point=p, index=int(j), single=r1))
    sub = np.sort(rng.choice(len(arg), size=min(40, len(arg)), replace=False))
    for lab, arr in points.layouts(arg[sub]):
        rec.cls("layout:" + lab)
        keep = arr.copy()
        try:
            rl = np.asarray(s.is_inside(arr))
        except Exception as e:
            rec.violation("batch-vs-single", f"{which}.is_inside/rejects-{lab}-array", dict(info, exc=repr(e)[:300]))
            continue
        cm = band[sub] > MARGIN * bsize
        rec.check("batch-vs-single", rl.shape == (len(sub),) and res.shape == (len(pts),) and bool(np.all(rl[cm] == res[sub][cm])),
                  f"{which}.is_inside/answer-depends-on-memory-layout:{lab}", lambda: dict(info, layout=lab))
        rec.check("batch-vs-single", np.array_equal(arr, keep), f"{which}.is_inside/modifies-argument:{lab}", lambda: dict(info, layout=lab))
    ip = np.rint(arg[rng.choice(len(arg), size=min(16, len(arg)), replace=False)])
    if which in ("Circle", "Ellipse") and float(cen[2]) == round(float(cen[2])) and abs(float(cen[2])) < 2 ** 30:
        # whole-number lattice points all over the bounding box of the curved shape (in its own plane)
        lo_ = np.floor([cen[0] - a2[0] - 1, cen[1] - a2[1] - 1])
        hi_ = np.ceil([cen[0] + a2[0] + 1, cen[1] + a2[1] + 1])
        if float(np.abs(np.concatenate((lo_, hi_))).max()) < 2 ** 30:
            lat = rng.integers(lo_, hi_ + 1, size=(40, 2)).astype(float)
            if ip.shape[1] == 3:
                lat = np.column_stack((lat, np.full(len(lat), float(cen[2]))))
            ip = np.vstack((ip, lat))
    if float(np.abs(ip).max()) < 2 ** 30:
        for form, argi in (("int64", ip.astype(np.int64)), ("int32", ip.astype(np.int32)), ("list-of-int-lists", [[int(x) for x in row] for row in ip])):
            rec.cls("form:" + form)
            try:
                ri = np.asarray(s.is_inside(argi))
                rec.check("batch-vs-single", ri.shape == (len(ip),) and ri.dtype == bool, f"{which}.is_inside/result-shape-or-dtype-for-{form}-points",
                          lambda: dict(info, shape=ri.shape, dtype=str(ri.dtype)))
            except Exception as e:
                rec.violation("batch-vs-single", f"{which}.is_inside/rejects-{form}-input", dict(info, points=ip[:4], exc=repr(e)[:300]))
    if nontriv:
        rec.nontriv(which, info.get("vertices", info.get("axes")), pts[:10])
    if i < 6:
        rec.sample({k: (v if not isinstance(v, np.ndarray) or v.size < 40 else v[:8]) for k, v in info.items()})

"""C05 -- 3-D point containment equals exact membership.

Monitor: postcondition on ``is_inside`` of ConvexPolyhedron, Polyhedron, Sphere,
Ellipsoid, ConvexSpheropolyhedron (every call, including the per-face prisms that the
spheropolyhedron builds internally); relational batch-vs-single check.
Oracles (none shares code with coxeter): exact half-spaces of the O-hull facets; solid-angle
winding number over the harness's fan triangulation + triangle distances for the margin;
voxel cell lookup through the inverse map as second opinion; quadratic forms; Euclidean
distance to the convex core for spheropolyhedra."""

import numpy as np

from .. import aging, contracts, gen, geom, points

PROPERTY = "C05"
MARGIN = 1e-6
RULE = ("Shapes from G-convex / G-mesh (voxel incl. axis-aligned, extrusions, perturbed hulls) / spheres / ellipsoids / "
        "spheropolyhedra (radius 1e-3..10 core sizes) x G-points: uniform in the enlarged bounding box, at signed distance "
        "+-{1e-1,1e-3,1e-5} size from faces/edges/vertices, points sharing coordinates with vertices (lattice and half-lattice "
        "for axis-aligned voxel solids); batches of 1..2000 and bare (3,) form.  Points within 1e-6 size of the boundary are "
        "counted as 'boundary band, not judged'.  Non-trivial = (shape, batch) with a judged point within 0.1 size of the "
        "boundary or sharing a coordinate with a vertex, or a non-convex shape; distinct = SHA-1 of shape+points.")
ASSUMPTIONS = ["membership is only judged for points farther than 1e-6*size from the boundary (oracle distance)",
               "solid-angle winding number is reliable off the surface by that margin"]
ANCHORS = ["coxeter.shapes.convex_polyhedron:ConvexPolyhedron.is_inside", "coxeter.shapes.polyhedron:Polyhedron.is_inside",
           "coxeter.shapes.polyhedron:Polyhedron._point_plane_distances", "coxeter.shapes.sphere:Sphere.is_inside",
           "coxeter.shapes.ellipsoid:Ellipsoid.is_inside",
           "coxeter.shapes.convex_spheropolyhedron:ConvexSpheropolyhedron.is_inside"]
REQUIRED_MONITORS = ["ConvexPolyhedron.is_inside", "Polyhedron.is_inside", "Sphere.is_inside", "Ellipsoid.is_inside",
                     "ConvexSpheropolyhedron.is_inside", "batch-vs-single", "oracle-second-opinion:voxel-lookup"]
REQUIRED_CLASSES = ["Polyhedron:voxel-aligned", "Polyhedron:voxel", "Polyhedron:extrusion", "Polyhedron:perturbed",
                    "ConvexPolyhedron", "Sphere", "Ellipsoid", "ConvexSpheropolyhedron", "form:(3,)", "batch:2000", "history:aged-object", "curved:extreme-units"]

_cache = {}


def ncases(tier):
    return 960 if tier == "quick" else 12000


def _cached(key, fn):
    if key not in _cache:
        if len(_cache) > 300:
            _cache.clear()
        _cache[key] = fn()
    return _cache[key]


def oracle_convex(V, pts):
    V = np.asarray(V, float)
    h = _cached(("hull", V.tobytes()), lambda: geom.hull_facets(V))
    sd = h.signed_dist(pts)
    size = float(np.ptp(V, axis=0).max())
    return sd < 0, np.abs(sd), size


def oracle_mesh(V, faces, pts):
    V = np.asarray(V, float)
    tris = _cached(("tris", V.tobytes(), str(faces)), lambda: geom.faces_to_tris(V, faces))
    w = geom.solid_angle_winding(pts, tris)
    d = geom.tri_dist(pts, tris).min(axis=1)
    size = float(np.ptp(V, axis=0).max())
    return w > 0.5, d, size


def oracle_sphero(V, r, pts):
    V = np.asarray(V, float)
    h = _cached(("hull", V.tobytes()), lambda: geom.hull_facets(V))
    sd = h.signed_dist(pts)
    d = np.where(sd <= 0, 0.0, geom.tri_dist(pts, h.tris()).min(axis=1))
    size = float(np.ptp(V, axis=0).max()) + r
    # inside: band is r - d (for points inside the core the band is at least r - sd >= r)
    band = np.where(sd <= 0, r - sd, np.abs(d - r))
    return d <= r, band, size


def judge(rec, mon, s, pts, result, inside, band, size, mechbase, witness):
    res = np.asarray(result)
    if res.shape != (len(pts),) or res.dtype != bool:
        rec.violation(mon, mechbase + "/result-shape-or-dtype", lambda: dict(witness(), got_shape=res.shape, dtype=str(res.dtype)))
        return
    judged = band > MARGIN * size
    rec.note("points in boundary band, not judged", int((~judged).sum()))
    bad = judged & (res != inside)
    rec.ok(mon, int(judged.sum()) - int(bad.sum()))
    for j in np.nonzero(bad)[0][:3]:
        kind = "false-positive" if res[j] else "false-negative"
        rec.violation(mon, f"{mechbase}/{kind}", lambda j=j: dict(witness(), point=pts[j], got=bool(res[j]), want=bool(inside[j]),
                                                                  boundary_distance=float(band[j])))
    if bad.sum() > 3:
        rec.viol_count[f"{mechbase}/false-positive" if res[np.nonzero(bad)[0][0]] else f"{mechbase}/false-negative"] += int(bad.sum()) - 3
        rec.evals[mon] += int(bad.sum()) - 3


def setup(rec, tier):
    import coxeter.shapes as cs

    def pts_of(a, k):
        p = a[0] if a else k.get("points")
        return np.atleast_2d(np.asarray(p, float))

    def convex_post(s, a, k, res, tok):
        pts = pts_of(a, k)
        inside, band, size = oracle_convex(s.vertices, pts)
        judge(rec, "ConvexPolyhedron.is_inside", s, pts, res, inside, band, size, "ConvexPolyhedron.is_inside",
              lambda: {"vertices": np.asarray(s.vertices)})

    def mesh_post(s, a, k, res, tok):
        if type(s) is not cs.Polyhedron:
            return
        pts = pts_of(a, k)
        faces = [[int(i) for i in f] for f in s.faces]
        inside, band, size = oracle_mesh(s.vertices, faces, pts)
        judge(rec, "Polyhedron.is_inside", s, pts, res, inside, band, size, "Polyhedron.is_inside",
              lambda: {"vertices": np.asarray(s.vertices), "faces": faces})

    def sphere_post(s, a, k, res, tok):
        pts = pts_of(a, k)
        c, r = np.asarray(s.centroid, float), float(s.radius)
        d = np.linalg.norm(pts - c, axis=1)
        judge(rec, "Sphere.is_inside", s, pts, res, d <= r, np.abs(d - r), r, "Sphere.is_inside",
              lambda: {"radius": r, "center": c})

    def ell_post(s, a, k, res, tok):
        pts = pts_of(a, k)
        c = np.asarray(s.centroid, float)
        ax = np.array([float(s.a), float(s.b), float(s.c)])
        q = np.sqrt((((pts - c) / ax) ** 2).sum(1))
        judge(rec, "Ellipsoid.is_inside", s, pts, res, q <= 1, np.abs(q - 1) * ax.min(), ax.max(), "Ellipsoid.is_inside",
              lambda: {"axes": ax, "center": c})

    def sphero_post(s, a, k, res, tok):
        pts = pts_of(a, k)
        r = float(s.radius)
        inside, band, size = oracle_sphero(s.vertices, r, pts)
        judge(rec, "ConvexSpheropolyhedron.is_inside", s, pts, res, inside, band, size, "ConvexSpheropolyhedron.is_inside",
              lambda: {"vertices": np.asarray(s.vertices), "radius": r})

    contracts.hook(cs.ConvexPolyhedron, "is_inside", post=convex_post)
    contracts.hook(cs.Polyhedron, "is_inside", post=mesh_post)
    contracts.hook(cs.Sphere, "is_inside", post=sphere_post)
    contracts.hook(cs.Ellipsoid, "is_inside", post=ell_post)
    contracts.hook(cs.ConvexSpheropolyhedron, "is_inside", post=sphero_post)
    return {"cs": cs}


BATCHES = (1, 2, 7, 50, 400, 2000)


def _curved_points(rng, c, ax, n):
    ax = np.asarray(ax, float)
    u = rng.normal(size=(n, 3))
    u /= np.linalg.norm(u, axis=1)[:, None]
    rad = np.concatenate((rng.uniform(0, 1.6, size=n // 2),
                          1 + rng.choice(points.DELTAS, size=n - n // 2) * rng.choice([-1, 1], size=n - n // 2)))
    p = c + u * ax * rad[:, None]
    # exercise all octants relative to the centre and points sharing coordinates with it
    k = int(rng.integers(3))
    p[rng.random(n) < 0.1, k] = c[k]
    # exact ties with the shape's own lengths: points whose distance from the centre *equals* one of the semi-axes but lies
    # along another axis or a Pythagorean direction (3,4,0)/5 - far from the surface unless the axes are equal
    ties = []
    for i in range(3):
        for d in (np.eye(3)[(i + 1) % 3], np.eye(3)[(i + 2) % 3], np.array([0.6, 0.8, 0.0]), np.array([0.0, -0.6, 0.8]), np.array([-0.8, 0.0, 0.6])):
            q = c + ax[i] * d
            ties.append(q)
    ties = np.array(ties)
    m = min(len(ties), max(1, n // 8))
    p[:m] = ties[rng.choice(len(ties), size=m, replace=False)]
    return p


def run_case(i, rng, rec, tier, state):
    cs = state["cs"]
    which = ["ConvexPolyhedron", "Polyhedron", "Sphere", "Ellipsoid", "ConvexSpheropolyhedron", "Polyhedron"][i % 6]
    nb = int(BATCHES[int(rng.integers(len(BATCHES)))]) if i % 11 else 2000
    info = {"class": which, "batch": nb}
    convex_shape = True
    # three cases in ten judge an object with a past (reads, resizes, moves through the public API) instead of a new one
    aged = (i // 6) % 10 in (2, 5, 8)
    if aged:
        rec.cls("history:aged-object")
    if which == "ConvexPolyhedron":
        c = gen.convex_case(rng)
        V = c["P"]
        s = cs.ConvexPolyhedron(V.copy())
        if aged:
            info["history"], _sib = aging.age_or_sibling(s, rng)
            V = np.array(s.vertices, float)
        h = geom.hull_facets(V)
        pts = points.points3d(rng, V, h.tris(), nb, lattice=bool(c.get("exact")) and not aged)
        rec.cls("ConvexPolyhedron")
        info.update(kind=c["kind"], vertices=V)
    elif which == "Polyhedron":
        c = gen.mesh_case(rng, kinds=("voxel", "voxel", "extrusion", "perturbed"), aligned_frac=0.4)
        V, faces = c["V"], c["faces"]
        s = cs.Polyhedron(V.copy(), gen.index_form(rng, faces, len(V))[1], faces_are_convex=True)
        if aged:
            info["history"], _sib = aging.age_or_sibling(s, rng, allow=("size", "move", "rigid"))
            V = np.array(s.vertices, float)
        tris = geom.faces_to_tris(V, faces)
        pts = points.points3d(rng, V, tris, nb, lattice=bool(c["aligned"]) and c["kind"] == "voxel" and np.allclose(c["A"], np.eye(3)) and not aged)
        tag = c["kind"] + ("-aligned" if c["aligned"] and c["kind"] in ("voxel", "extrusion") else "")
        rec.cls("Polyhedron:" + tag)
        convex_shape = False
        info.update(kind=tag, vertices=V, faces=faces)
        if c["kind"] == "voxel" and not aged:
            # second opinion for the oracle: cell lookup through the inverse affine map
            cells = set(c["cells"])
            q = (pts - c["t"]) @ np.linalg.inv(c["A"]).T
            fl = np.floor(q)
            frac = q - fl
            clear = np.all((frac > 1e-6) & (frac < 1 - 1e-6), axis=1)
            lookup = np.array([tuple(int(x) for x in f) in cells for f in fl])
            ins, band, size = oracle_mesh(V, [[int(x) for x in f] for f in faces], pts)
            sel = clear & (band > MARGIN * size)
            rec.check("oracle-second-opinion:voxel-lookup", bool(np.all(ins[sel] == lookup[sel])),
                      "oracle/winding-vs-voxel-lookup-disagree", {"cells": c["cells"], "A": c["A"], "t": c["t"]})
    elif which == "Sphere":
        (r,), _ = gen.axes_case(rng, 1)
        cen, _ = gen.center_case(rng, r)
        u = gen.unit_factor(rng)
        if u != 1.0:
            r, cen = r * u, cen * u
            rec.cls("curved:extreme-units")
        cen, carg, cform = gen.centre_form(rng, cen, r)
        rec.cls("centre:" + cform)
        s = cs.Sphere(r) if carg is None else cs.Sphere(r, carg)
        if aged:
            info["history"], _sib = aging.age_or_sibling(s, rng)
            r, cen = float(s.radius), np.array(s.centroid, float)
        pts = _curved_points(rng, cen, [r, r, r], nb)
        rec.cls("Sphere")
        info.update(radius=r, center=cen)
    elif which == "Ellipsoid":
        ax, _ = gen.axes_case(rng, 3)
        cen, _ = gen.center_case(rng, max(ax))
        u = gen.unit_factor(rng)
        if u != 1.0:
            ax, cen = [a * u for a in ax], cen * u
            rec.cls("curved:extreme-units")
        cen, carg, cform = gen.centre_form(rng, cen, max(ax))
        rec.cls("centre:" + cform)
        s = cs.Ellipsoid(ax[0], ax[1], ax[2]) if carg is None else cs.Ellipsoid(ax[0], ax[1], ax[2], carg)
        if aged:
            info["history"], _sib = aging.age_or_sibling(s, rng)
            ax, cen = [float(s.a), float(s.b), float(s.c)], np.array(s.centroid, float)
        pts = _curved_points(rng, cen, ax, nb)
        rec.cls("Ellipsoid")
        info.update(axes=ax, center=cen)
    else:
        for _ in range(20):
            c = gen.convex_case(rng, tabulated_frac=0.0)
            if len(c["P"]) <= 16:
                break
        V = c["P"][:16] if len(c["P"]) > 16 else c["P"]
        if len(V) != len(c["P"]):
            V = V[gen.strict_hull_vertices(V)]
        size = gen.diameter(V)
        r = float(np.exp(rng.uniform(np.log(1e-3), np.log(10)))) * size
        s = cs.ConvexSpheropolyhedron(V.copy(), r)
        if aged:
            info["history"], _sib = aging.age_or_sibling(s, rng)
            V, r = np.array(s.vertices, float), float(s.radius)
        nb = min(nb, 400)
        h = geom.hull_facets(V)
        tris = h.tris()
        # points over faces, edges and vertices at distance r(1 +- delta), plus bulk points
        base = points.points3d(rng, V, tris, nb)
        k = nb // 2
        t = tris[rng.integers(len(tris), size=k)]
        w = rng.dirichlet([1, 1, 1], size=k)
        mode = rng.integers(3, size=k)
        w[mode == 1, 2] = 0
        w[mode == 1] /= w[mode == 1].sum(1, keepdims=True)
        w[mode == 2] = [1.0, 0, 0]
        p = (w[:, :, None] * t).sum(1)
        d = p - h.P.mean(0)
        d /= np.linalg.norm(d, axis=1)[:, None]
        fac = 1 + rng.choice(points.DELTAS, size=k) * rng.choice([-1, 1], size=k)
        pts = np.vstack((base[: nb - k], p + d * (r * fac)[:, None]))
        rec.cls("ConvexSpheropolyhedron")
        info.update(vertices=V, radius=r)
    rec.cls("batch:%d" % len(pts))
    try:
        res = np.asarray(s.is_inside(pts.copy()))
    except Exception as e:
        rec.violation(which + ".is_inside", f"{which}.is_inside/raises-{type(e).__name__}", dict(info, exc=repr(e)[:300]))
        return
    # single-point calls must reproduce the batch answers, in order; (3,) and list forms accepted.
    # Only points outside the boundary band are compared (on the boundary itself a batch and a
    # single call may round differently, and the statement excludes those points).
    if which == "ConvexPolyhedron":
        _, band, bsize = oracle_convex(V, pts)
    elif which == "Polyhedron":
        _, band, bsize = oracle_mesh(V, [[int(x) for x in f] for f in faces], pts)
    elif which == "Sphere":
        band, bsize = np.abs(np.linalg.norm(pts - cen, axis=1) - r), r
    elif which == "Ellipsoid":
        axv = np.array(ax)
        band, bsize = np.abs(np.sqrt((((pts - cen) / axv) ** 2).sum(1)) - 1) * axv.min(), axv.max()
    else:
        _, band, bsize = oracle_sphero(V, r, pts)
    clear = np.nonzero(band > MARGIN * bsize)[0]
    if len(clear) == 0:
        return
    idx = rng.choice(clear, size=min(6, len(clear)), replace=False)
    for t, j in enumerate(idx):
        form = ["(3,)", "(1,3)", "list"][t % 3]
        arg = pts[j].copy() if form == "(3,)" else (pts[j][None, :].copy() if form == "(1,3)" else [float(x) for x in pts[j]])
        rec.cls("form:" + form)
        try:
            r1 = np.asarray(s.is_inside(arg))
        except Exception as e:
            rec.violation("batch-vs-single", f"{which}.is_inside/rejects-{form}-input", dict(info, point=pts[j], exc=repr(e)[:300]))
            continue
        ok = r1.shape == (1,) and res.shape == (len(pts),) and bool(r1[0]) == bool(res[j])
        rec.check("batch-vs-single", ok, f"{which}.is_inside/batch-differs-from-single",
                  lambda: dict(info, point=pts[j], index=int(j), single=r1, batch=res[j] if res.shape == (len(pts),) else res.shape))
    # the same query in the other forms an array of points takes: whole-number points as integer arrays and nested lists
    # (each call is judged by the membership monitor like any other)
    ip = np.rint(pts[rng.choice(len(pts), size=min(16, len(pts)), replace=False)])
    if which in ("Sphere", "Ellipsoid"):
        # whole-number lattice points all over the solid's bounding box (a lattice scan is what integer queries are used for)
        axv_ = np.array([r, r, r] if which == "Sphere" else ax, float)
        lo_, hi_ = np.floor(cen - axv_ - 1), np.ceil(cen + axv_ + 1)
        if float(np.abs(np.concatenate((lo_, hi_))).max()) < 2 ** 30:
            ip = np.vstack((ip, rng.integers(lo_, hi_ + 1, size=(48, 3)).astype(float)))
    if float(np.abs(ip).max()) < 2 ** 30:
        for form, argi in (("int64", ip.astype(np.int64)), ("int32", ip.astype(np.int32)), ("list-of-int-lists", [[int(x) for x in row] for row in ip])):
            rec.cls("form:" + form)
            try:
                ri = np.asarray(s.is_inside(argi))
                rec.check("batch-vs-single", ri.shape == (len(ip),) and ri.dtype == bool, f"{which}.is_inside/result-shape-or-dtype-for-{form}-points",
                          lambda: dict(info, shape=ri.shape, dtype=str(ri.dtype)))
            except Exception as e:
                rec.violation("batch-vs-single", f"{which}.is_inside/rejects-{form}-input", dict(info, points=ip[:4], exc=repr(e)[:300]))
    # the same points in the other memory layouts a caller may hold them in (Fortran order, strided views, read-only):
    # each call is judged by the membership monitor; the answers must equal the batch's and the argument must stay as it was
    sub = np.sort(rng.choice(len(pts), size=min(40, len(pts)), replace=False))
    for lab, arr in points.layouts(pts[sub]):
        rec.cls("layout:" + lab)
        keep = arr.copy()
        try:
            rl = np.asarray(s.is_inside(arr))
        except Exception as e:
            rec.violation("batch-vs-single", f"{which}.is_inside/rejects-{lab}-array", dict(info, exc=repr(e)[:300]))
            continue
        cm = band[sub] > MARGIN * bsize
        rec.check("batch-vs-single", rl.shape == (len(sub),) and bool(np.all(rl[cm] == res[sub][cm])), f"{which}.is_inside/answer-depends-on-memory-layout:{lab}",
                  lambda: dict(info, layout=lab))
        rec.check("batch-vs-single", np.array_equal(arr, keep), f"{which}.is_inside/modifies-argument:{lab}", lambda: dict(info, layout=lab))
    if len(pts) > 1:
        perm = rng.permutation(len(pts))
        r2 = np.asarray(s.is_inside(pts[perm].copy()))
        cm = band[perm] > MARGIN * bsize
        rec.check("batch-vs-single", r2.shape == res.shape and bool(np.all(r2[cm] == res[perm][cm])), f"{which}.is_inside/batch-order-dependent",
                  lambda: dict(info, note="permuted batch gives different per-point answers"))
    rec.nontriv(which, info.get("vertices", info.get("axes", info.get("radius"))), pts[:20]) if (not convex_shape or len(pts) >= 7) else None
    if i < 6:
        rec.sample({k: (v if not isinstance(v, np.ndarray) or v.size < 40 else v[:8]) for k, v in info.items()})

"""C15 -- Constructors accept valid geometry and reject invalid geometry.

Monitor: outcome observer around ``__init__`` of all ten classes (pre: bitwise snapshot of
every caller array; post / raised: outcome, alias finder over the object graph, caller
arrays compared again, and once more after a subsequent in-place mutation).  Oracle: exact
validity classification by the generator (rational segment intersection, planarity, convex
position with margin, sign of parameters)."""

import itertools

import numpy as np

from .. import contracts, gen, geom

PROPERTY = "C15"
RULE = ("G-poly valid (certified simple with margin, both orientations) and invalid siblings (certified crossing cycles and "
        "bow-ties, duplicates, 2 vertices, one vertex lifted off the plane by >1% of size), G-convex sets in several permutations "
        "plus an interior point deeper than 1e-3 size (and exactly coplanar/collinear lattice points), G-curved with zero/negative/"
        "nan parameters, negative rounding radii; arguments as lists, tuples, float64/int arrays, array normals/centres, face lists "
        "as lists and arrays.  Non-trivial = invalid input, or valid input that is clockwise/non-convex/permuted; distinct = SHA-1 "
        "of class + arguments.")
ASSUMPTIONS = ["only margin-separated inputs are judged (generator margins)",
               "NaN parameters are recorded but only 'must not construct' is judged for them"]
ANCHORS = ["coxeter.shapes.polygon:Polygon.__init__", "coxeter.shapes.polygon:_is_simple",
           "coxeter.shapes.convex_polygon:ConvexPolygon.__init__", "coxeter.shapes.convex_polygon:ConvexPolygon._reorder_verts",
           "coxeter.shapes.convex_polygon:_is_convex", "coxeter.shapes.convex_polyhedron:ConvexPolyhedron.__init__",
           "coxeter.shapes.convex_spheropolygon:ConvexSpheropolygon.__init__",
           "coxeter.shapes.convex_spheropolyhedron:ConvexSpheropolyhedron.__init__", "coxeter.shapes.circle:Circle.__init__",
           "coxeter.shapes.ellipse:Ellipse.__init__", "coxeter.shapes.sphere:Sphere.__init__",
           "coxeter.shapes.ellipsoid:Ellipsoid.__init__", "coxeter.extern.bentley_ottmann.poly_point_isect:isect_polygon"]
REQUIRED_MONITORS = ["valid-accepted", "invalid-rejected", "convex-ccw-about-normal", "order-independence", "no-alias", "caller-arrays-unchanged"]
REQUIRED_CLASSES = ["Polygon:valid", "Polygon:crossing", "Polygon:duplicate", "Polygon:too-few", "Polygon:nonplanar",
                    "ConvexPolygon:valid", "ConvexPolygon:interior-point", "ConvexSpheropolygon:valid", "ConvexPolyhedron:valid",
                    "ConvexPolyhedron:interior-point", "ConvexSpheropolyhedron:negative-radius", "Circle:nonpositive",
                    "Ellipsoid:nonpositive", "Polyhedron:valid", "malformed:one-dimensional", "malformed:three-dimensional", "malformed:Nx4",
                    "malformed:empty-list", "Polygon:valid:first-three-collinear-no-normal", "Polygon:crossing:star", "convex2d:listing:star-step", "Polygon:duplicate:negative-zero"]


def ncases(tier):
    return 2400 if tier == "quick" else 60000


def arrays_in(obj, seen=None, depth=0):
    """All ndarrays reachable from vars(obj) (lists/tuples/dicts/nested shapes)."""
    seen = seen if seen is not None else set()
    out = []
    if id(obj) in seen or depth > 6:
        return out
    seen.add(id(obj))
    if isinstance(obj, np.ndarray):
        out.append(obj)
    elif isinstance(obj, (list, tuple)):
        for x in obj:
            out += arrays_in(x, seen, depth + 1)
    elif isinstance(obj, dict):
        for x in obj.values():
            out += arrays_in(x, seen, depth + 1)
    elif hasattr(obj, "__dict__") and type(obj).__module__.startswith("coxeter"):
        out += arrays_in(vars(obj), seen, depth + 1)
    return out


def caller_arrays(args, kwargs):
    out = []

    def walk(x, path):
        if isinstance(x, np.ndarray):
            out.append((path, x))
        elif isinstance(x, (list, tuple)):
            for i, y in enumerate(x):
                walk(y, f"{path}[{i}]")

    for i, a in enumerate(args):
        walk(a, f"arg{i}")
    for k, v in kwargs.items():
        walk(v, k)
    return out


def setup(rec, tier):
    import coxeter.shapes as cs

    st = {"cs": cs, "depth": 0, "last": None}

    def pre(s, a, k):
        st["depth"] += 1
        if st["depth"] > 1:
            return None
        ca = caller_arrays(a, k)
        return [(p, arr, arr.copy()) for p, arr in ca]

    def post(s, a, k, res, tok):
        st["depth"] -= 1
        if tok is None:
            return
        name = type(s).__name__
        internal = arrays_in(s)
        for path, arr, before in tok:
            same = arr.shape == before.shape and arr.dtype == before.dtype and np.array_equal(arr, before, equal_nan=True)
            rec.check("caller-arrays-unchanged", same, f"{name}.__init__/modifies-caller-{path.split('[')[0]}",
                      lambda: {"class": name, "arg": path, "before": before, "after": arr})
            shared = any(np.shares_memory(arr, x) for x in internal)
            rec.check("no-alias", not shared, f"{name}.__init__/stores-caller-{path.split('[')[0]}", lambda: {"class": name, "arg": path})
        st.setdefault("tokens", {})[id(s)] = tok
        st["keep"] = st.get("keep", [])[-50:] + [s]

    def raised(s, a, k, exc, tok):
        st["depth"] -= 1
        if tok is None:
            return
        name = type(s).__name__
        for path, arr, before in tok:
            same = arr.shape == before.shape and np.array_equal(arr, before, equal_nan=True)
            rec.check("caller-arrays-unchanged", same, f"{name}.__init__/modifies-caller-{path.split('[')[0]}-then-raises",
                      lambda: {"class": name, "arg": path, "before": before, "after": arr})

    for cls in (cs.Polygon, cs.ConvexPolygon, cs.ConvexSpheropolygon, cs.ConvexPolyhedron, cs.ConvexSpheropolyhedron, cs.Polyhedron,
                cs.Circle, cs.Ellipse, cs.Sphere, cs.Ellipsoid):
        contracts.hook(cls, "__init__", pre=pre, post=post, raised=raised)
    return st


def container(rng, arr, allow_int=False):
    """Pass the same data as list / tuple / float64 array / int array."""
    arr = np.asarray(arr)
    u = rng.random()
    if allow_int and np.all(arr == np.round(arr)) and u < 0.25:
        return arr.astype(np.int64)
    if u < 0.5:
        return np.array(arr, dtype=np.float64)
    if u < 0.75:
        return arr.tolist()
    return tuple(tuple(r) if isinstance(r, list) else r for r in arr.tolist())


def expect_valid(rec, st, label, ctor, info, after=None):
    rec.cls(label)
    try:
        s = ctor()
    except Exception as e:
        rec.violation("valid-accepted", f"{label}/rejected-{type(e).__name__}", dict(info, exc=repr(e)[:300]))
        return None
    rec.ok("valid-accepted")
    if after is not None:
        st.setdefault("pending", []).append((s, after, info))
    return s


def later_mutations(rec, st):
    """A later in-place mutation of the shape must not reach the caller's arrays either."""
    for s, after, info in st.pop("pending", []):
        tok = st.get("tokens", {}).get(id(s))
        if tok is None:
            continue
        try:
            with contracts.quiet():
                after(s)
        except Exception:
            pass
        for path, arr, before in tok:
            same = np.array_equal(arr, before, equal_nan=True)
            rec.check("caller-arrays-unchanged", same, f"{type(s).__name__}/later-mutation-writes-into-caller-{path.split('[')[0]}",
                      lambda: dict(info, arg=path, before=before, after=arr))
    st["tokens"] = {}


def expect_invalid(rec, label, ctor, info, nan=False):
    rec.cls(label)
    try:
        s = ctor()
    except ValueError:
        rec.ok("invalid-rejected")
        return
    except Exception as e:
        rec.violation("invalid-rejected", f"{label}/raises-{type(e).__name__}-instead-of-ValueError", dict(info, exc=repr(e)[:300]))
        return
    rec.violation("invalid-rejected", f"{label}/accepted", dict(info, result=repr(s)[:200]))


MALFORMED = ["one-dimensional", "three-dimensional", "Nx1", "Nx4", "empty-list", "scalar", "ragged"]
MALFORMED_CLASSES = ["Polygon", "ConvexPolygon", "ConvexSpheropolygon", "ConvexPolyhedron", "ConvexSpheropolyhedron", "Polyhedron"]
_CHILD = r"""
import sys, warnings
import numpy as np
warnings.simplefilter("ignore")
import coxeter.shapes as cs
cname = sys.argv[1]
bad = {"one-dimensional": [1., 2., 3.], "three-dimensional": np.zeros((2, 3, 3)), "Nx1": [[0.], [1.], [2.], [3.]],
       "Nx4": np.arange(20.).reshape(5, 4) ** 1.5, "empty-list": [], "scalar": 1.0, "ragged": [[0, 0], [1, 0, 0], [0, 1]]}
mk = {"Polygon": lambda v: cs.Polygon(v), "ConvexPolygon": lambda v: cs.ConvexPolygon(v), "ConvexSpheropolygon": lambda v: cs.ConvexSpheropolygon(v, 0.5),
      "ConvexPolyhedron": lambda v: cs.ConvexPolyhedron(v), "ConvexSpheropolyhedron": lambda v: cs.ConvexSpheropolyhedron(v, 0.5),
      "Polyhedron": lambda v: cs.Polyhedron(v, [[0, 1, 2], [0, 2, 3], [0, 3, 1], [1, 3, 2]])}
for k in sys.argv[2:]:
    print("BEGIN", k, flush=True)
    try:
        mk[cname](bad[k])
        r = "accepted"
    except Exception as e:
        r = type(e).__name__
    print("END", k, r, flush=True)
"""


def malformed(rec, cname):
    """Vertex arguments that are not an (N, 2|3) array at all.  Run in a child process: an unvalidated array handed to
    qhull can take the interpreter down, and that has to be reported, not suffered."""
    import os
    import subprocess
    import sys
    from .. import bootstrap

    root = os.environ.get("VERIF_REPO_ROOT", "/repo")
    todo = list(MALFORMED)
    for _ in range(len(MALFORMED) + 1):
        if not todo:
            break
        try:
            r = subprocess.run([sys.executable, "-c", _CHILD, cname] + todo, capture_output=True, text=True, timeout=300,
                               env=dict(os.environ, PYTHONPATH=root))
        except subprocess.TimeoutExpired:
            rec.inconc(f"malformed-input child for {cname} timed out")
            return
        began, ended = None, {}
        for line in r.stdout.splitlines():
            w = line.split()
            if w[:1] == ["BEGIN"]:
                began = w[1]
            elif w[:1] == ["END"]:
                ended[w[1]] = w[2]
        for k, outcome in ended.items():
            rec.cls("malformed:" + k)
            info = {"class": cname, "vertices_argument": k}
            if outcome == "ValueError":
                rec.ok("invalid-rejected")
            elif outcome == "accepted":
                rec.violation("invalid-rejected", f"{cname}:malformed-vertex-array/accepted", info)
            else:
                rec.violation("invalid-rejected", f"{cname}:malformed-vertex-array/raises-{outcome}-instead-of-ValueError", info)
            todo.remove(k)
        if r.returncode != 0 and began is not None and began not in ended:
            rec.cls("malformed:" + began)
            rec.violation("invalid-rejected", f"{cname}:malformed-vertex-array/kills-the-interpreter",
                          {"class": cname, "vertices_argument": began, "child_exit_code": r.returncode, "stderr": r.stderr[-300:]})
            todo.remove(began)
        elif r.returncode != 0:
            rec.inconc(f"malformed-input child for {cname} failed: {r.stderr[-200:]}")
            return


def run_case(i, rng, rec, tier, state):
    try:
        if i < len(MALFORMED_CLASSES):
            malformed(rec, MALFORMED_CLASSES[i])
        _run_case(i, rng, rec, tier, state)
    finally:
        later_mutations(rec, state)


def _run_case(i, rng, rec, tier, state):
    cs, st = state["cs"], state
    mode = i % 6
    if mode == 0:       # Polygon valid / invalid siblings
        c = gen.polygon_case(rng, far_frac=0.12, far_tilted=False)
        if c["far"]:
            rec.cls("Polygon:valid:far-from-origin")
        if c.get("straight_corner") is not None:
            rec.cls("polygon:straight-corner" + (":first-three-collinear" if c["straight_corner"] == 1 else ""))
        V = c["V"]
        narg = None if c["normal_arg"] is None else (np.array(c["normal_arg"]) if rng.random() < 0.6 else list(c["normal_arg"]))
        verts = container(rng, V[:, :2] if (not c["tilted"] and np.all(V[:, 2] == 0) and rng.random() < 0.4) else V, allow_int=True)
        info = {"class": "Polygon", "vertices": V, "normal_arg": c["normal_arg"], "kind": c["kind"], "ccw": c["ccw"]}
        expect_valid(rec, st, "Polygon:valid", lambda: cs.Polygon(verts, normal=narg), info, after=lambda s: setattr(s, "centroid", (1.0, 2.0, 3.0)))
        if c.get("straight_corner") == 1:
            # no normal stated although the first three vertices are collinear: still a simple planar polygon
            rec.cls("Polygon:valid:first-three-collinear-no-normal")
            expect_valid(rec, st, "Polygon:valid", lambda: cs.Polygon(container(rng, V)), dict(info, normal_arg=None))
        if (not c["ccw"]) or (not c["convex"]) or c["tilted"]:
            rec.nontriv("Polygon", V, c["normal_arg"])
        sib = int(rng.integers(5))
        n = len(V)
        if sib == 4:
            # star polygon {n/k}: points in convex position visited with a step k coprime to n - every corner turns the same
            # way although the cycle winds k times and crosses itself (pentagram, heptagrams ...)
            for _ in range(20):
                xy0 = gen.convex_polygon_2d(rng, int(rng.integers(5, 12))) * c["size"]
                lst = geom.star_listing(rng, len(xy0))
                if lst is None:
                    continue
                xy = xy0[lst] if rng.random() < 0.5 else xy0[lst][::-1]
                if geom.polygon_crosses_exact(xy) and geom.polygon_min_feature(xy)[1] > 1e-3:
                    e1, e2, nn = geom.plane_frame(c["normal"])
                    W = V.mean(0) + xy[:, :1] * e1 + xy[:, 1:2] * e2
                    if not c["tilted"]:
                        W = np.column_stack((xy + V[:, :2].mean(0), np.full(len(xy), V[0, 2])))
                    rec.cls("Polygon:crossing:star")
                    # (judged under the mechanism names of any crossing cycle: the sweep's AssertionError finding is one defect)
                    expect_invalid(rec, "Polygon:crossing", lambda: cs.Polygon(container(rng, W), normal=narg), dict(info, vertices=W, star=True))
                    rec.nontriv("Polygon:crossing:star", W)
                    break
        elif sib == 0 and n >= 4:
            # crossing cycle: swap two non-adjacent vertices until a proper crossing is certified
            for _ in range(20):
                a, b = sorted(rng.choice(n, size=2, replace=False))
                W = V.copy()
                W[[a, b]] = W[[b, a]]
                e1, e2, nn = geom.plane_frame(c["normal"])
                xy = np.column_stack((W @ e1, W @ e2))
                if geom.polygon_crosses_exact(xy) and geom.polygon_min_feature(xy)[1] > 1e-3:
                    expect_invalid(rec, "Polygon:crossing", lambda: cs.Polygon(container(rng, W), normal=narg), dict(info, vertices=W))
                    rec.nontriv("Polygon:crossing", W)
                    break
        elif sib == 1 and rng.random() < 0.4 and not c["tilted"]:
            # the same point twice, the two copies differing only in the sign of a zero coordinate (-0.0 == 0.0)
            j = int(rng.integers(n))
            W = V.copy()
            W[:, 0] -= W[j, 0]
            dup = W[j].copy()
            dup[0] = -0.0
            W[j, 0] = 0.0
            W = np.insert(W, int(rng.integers(n + 1)), dup, axis=0)
            rec.cls("Polygon:duplicate:negative-zero")
            expect_invalid(rec, "Polygon:duplicate", lambda: cs.Polygon(container(rng, W), normal=narg), dict(info, vertices=W, negative_zero=True))
            rec.nontriv("Polygon:duplicate", W)
        elif sib == 1 and rng.random() < 0.45:
            # grid outlines standing in a coordinate plane or a vertical diagonal plane (a rectangle, an L, a staircase: many
            # vertices share one, two coordinates), with one vertex listed twice - most often the closed ring a drawing program
            # exports (first vertex repeated at the end), else anywhere in the list
            shapes = ([(0, 0), (2, 0), (2, 3), (0, 3)], [(0, 0), (3, 0), (3, 1), (1, 1), (1, 3), (0, 3)],
                      [(0, 0), (3, 0), (3, 1), (2, 1), (2, 2), (1, 2), (1, 3), (0, 3)], [(0, 0), (4, 0), (4, 2), (0, 2)])
            xy = np.array(shapes[int(rng.integers(len(shapes)))], float) * float(rng.choice([0.5, 1.0, 2.0]))
            xy = np.roll(xy[::-1] if rng.random() < 0.5 else xy, int(rng.integers(len(xy))), axis=0)
            plane = str(rng.choice(["xz", "yz", "xy", "x=y", "x=-y"]))
            u_, v_ = xy[:, 0], xy[:, 1]
            zero = np.zeros(len(xy))
            W = {"xz": np.column_stack((u_, zero, v_)), "yz": np.column_stack((zero, u_, v_)), "xy": np.column_stack((u_, v_, zero)),
                 "x=y": np.column_stack((u_, u_, v_)), "x=-y": np.column_stack((u_, -u_, v_))}[plane]
            W = W + rng.integers(-3, 4, size=3)
            j = 0 if rng.random() < 0.6 else int(rng.integers(len(W)))
            pos = len(W) if rng.random() < 0.6 else int(rng.integers(len(W) + 1))
            W = np.insert(W, pos, W[j], axis=0)
            rec.cls("Polygon:duplicate:grid-outline-in-" + ("a-vertical-plane" if plane != "xy" else "the-xy-plane"))
            expect_invalid(rec, "Polygon:duplicate", lambda: cs.Polygon(container(rng, W)), dict(info, vertices=W, plane=plane, normal_arg=None))
            rec.nontriv("Polygon:duplicate", W)
        elif sib == 1:
            W = np.insert(V, int(rng.integers(n + 1)) if rng.random() < 0.5 else n, V[int(rng.integers(n))], axis=0)
            expect_invalid(rec, "Polygon:duplicate", lambda: cs.Polygon(container(rng, W), normal=narg), dict(info, vertices=W))
            rec.nontriv("Polygon:duplicate", W)
        elif sib == 2:
            W = V[: int(rng.integers(1, 3))]
            expect_invalid(rec, "Polygon:too-few", lambda: cs.Polygon(container(rng, W)), dict(info, vertices=W))
            rec.nontriv("Polygon:too-few", W)
        elif n >= 4:
            W = V.copy()
            j = int(rng.integers(3, n))
            W[j] = W[j] + c["normal"] * float(rng.uniform(0.02, 0.3)) * c["size"] * float(rng.choice([-1, 1]))
            expect_invalid(rec, "Polygon:nonplanar", lambda: cs.Polygon(container(rng, W), normal=narg), dict(info, vertices=W))
            rec.nontriv("Polygon:nonplanar", W)
        return
    if mode == 1:       # ConvexPolygon / ConvexSpheropolygon
        xy = gen.convex_polygon_2d(rng, axis_aligned=bool(rng.random() < 0.2)) * float(np.exp(rng.uniform(-1.5, 1.5)))
        V = np.column_stack((xy, np.zeros(len(xy))))
        tilt = rng.random() < 0.5
        R = gen.random_rotation(rng) if tilt else np.eye(3)
        t = rng.uniform(-3, 3, size=3) if tilt else np.append(rng.uniform(-3, 3, size=2), 0.0)
        V = V @ R.T + t
        plane_n = R @ np.array([0, 0, 1.0])
        sgn = float(rng.choice([-1, 1]))
        nrm = plane_n * sgn
        perm = rng.permutation(len(V))
        star = geom.star_listing(rng, len(V)) if rng.random() < 0.25 else None
        if star is not None:
            # a listing whose every corner turns the same way but which is not the boundary order (winds k times)
            perm = np.array(star if rng.random() < 0.5 else star[::-1])
            rec.cls("convex2d:listing:star-step")
        use_sphero = rng.random() < 0.4
        rad = float(rng.choice([0.0, 0.3, 2.0]))
        narg = np.array(nrm) if rng.random() < 0.7 else None
        label = "ConvexSpheropolygon" if use_sphero else "ConvexPolygon"
        info = {"class": label, "vertices": V[perm], "normal_arg": narg}

        def make(W, na=narg):
            return cs.ConvexSpheropolygon(container(rng, W), rad, normal=na) if use_sphero else cs.ConvexPolygon(container(rng, W), normal=na)

        s = expect_valid(rec, st, label + ":valid", lambda: make(V[perm]), info, after=lambda s: setattr(s, "area", 2.5))
        if s is not None:
            with contracts.quiet():
                Vs, ns = np.asarray(s.vertices, float), np.asarray(s.normal, float)
            E = geom.poly3d_exact(Vs, ns)
            same_set = len(Vs) == len(V) and all(np.min(np.linalg.norm(V - v, axis=1)) <= 1e-12 * (1 + np.abs(V).max()) for v in Vs)
            xyr = np.column_stack(((Vs - Vs.mean(0)) @ E["frame"][0], (Vs - Vs.mean(0)) @ E["frame"][1]))
            rec.check("convex-ccw-about-normal", same_set and E["signed_area"] > 0 and gen.is_convex_ccw(xyr),
                      f"{label}.vertices/not-ccw-about-normal", lambda: dict(info, result_vertices=Vs, result_normal=ns))
            # a second input order must give the same cycle (up to rotation) when the normal is stated
            if narg is not None:
                perm2 = rng.permutation(len(V))
                try:
                    with contracts.quiet():
                        s2 = make(V[perm2])
                        V2 = np.asarray(s2.vertices, float)
                    k0 = int(np.argmin(np.linalg.norm(V2 - Vs[0], axis=1)))
                    rec.check("order-independence", np.allclose(np.roll(V2, -k0, axis=0), Vs, atol=1e-12 * (1 + np.abs(V).max())),
                              f"{label}.vertices/cycle-depends-on-input-order", lambda: dict(info, perm2=perm2, v1=Vs, v2=V2))
                except Exception as e:
                    rec.violation("order-independence", f"{label}/rejected-permuted-input-{type(e).__name__}", dict(info, perm2=perm2))
        rec.nontriv(label, V[perm], narg)
        # interior point deeper than 1e-3 size -> ValueError
        w = rng.dirichlet(np.ones(len(V)) * 2)
        p = w @ V
        e1, e2, nn = geom.plane_frame(plane_n)
        xy2 = np.column_stack((V @ e1, V @ e2))
        ins, dist = geom.point_in_polygon(xy2, np.array([[p @ e1, p @ e2]]))
        if ins[0] and dist[0] > 1e-2 * gen.diameter(V):
            W = np.vstack((V, p))[rng.permutation(len(V) + 1)]
            expect_invalid(rec, label + ":interior-point", lambda: make(W), dict(info, vertices=W))
            rec.nontriv(label + ":interior", W)
        if use_sphero:
            expect_invalid(rec, "ConvexSpheropolygon:negative-radius", lambda: cs.ConvexSpheropolygon(V, -abs(rng.uniform(0.01, 2))), info)
        return
    if mode in (2, 3):  # ConvexPolyhedron / ConvexSpheropolyhedron
        c = gen.convex_case(rng, tabulated_frac=0.1)
        P = c["P"]
        if len(P) > 40:
            P = P[:40]
            P = P[gen.strict_hull_vertices(P)]
        use_sphero = mode == 3 and rng.random() < 0.5
        label = "ConvexSpheropolyhedron" if use_sphero else "ConvexPolyhedron"
        rad = float(rng.choice([0.0, 0.2, 3.0]))
        info = {"class": label, "vertices": P, "kind": c["kind"]}

        def make3(W):
            return cs.ConvexSpheropolyhedron(container(rng, W, allow_int=True), rad) if use_sphero else cs.ConvexPolyhedron(container(rng, W, allow_int=True))

        expect_valid(rec, st, label + ":valid", lambda: make3(P), info, after=lambda s: setattr(s.polyhedron if use_sphero else s, "centroid", (1.0, 2.0, 3.0)))
        rec.nontriv(label, P)
        h = geom.hull_facets(P)
        size = gen.diameter(P)
        # interior point deeper than 1e-3 size
        w = rng.dirichlet(np.ones(len(P)))
        p = w @ P
        if h.signed_dist(p)[0] < -1e-2 * size:
            W = np.vstack((P, p))[rng.permutation(len(P) + 1)]
            expect_invalid(rec, label + ":interior-point", lambda: make3(W), dict(info, vertices=W))
            rec.nontriv(label + ":interior", W)
        if c.get("exact") and np.all(P == np.round(P)):
            # exactly coplanar / collinear lattice points: midpoint of an edge (collinear with two vertices)
            a, b = h.edges[int(rng.integers(len(h.edges)))]
            mid = (P[a] + P[b]) / 2
            W = np.vstack((P, mid))
            expect_invalid(rec, label + ":point-on-edge(exact)", lambda: make3(W), dict(info, vertices=W))
        if use_sphero:
            expect_invalid(rec, "ConvexSpheropolyhedron:negative-radius", lambda: cs.ConvexSpheropolyhedron(P, -abs(rng.uniform(0.01, 2))), info)
        # vertex sets that span no solid at all: exactly coplanar, exactly collinear, fewer than four points, a non-finite coordinate
        kind = ["coplanar", "collinear", "three-points", "infinite-coordinate", "nan-coordinate"][int(rng.integers(5))]
        if kind == "coplanar":
            f = max(h.facets, key=len)
            W = P[list(f)] if len(f) >= 4 else np.vstack((P[list(f)], P[list(f)].mean(0) + (P[f[0]] - P[f[1]])))
            n0 = h.normals[h.facets.index(f)]
            W = W - np.outer((W - W[0]) @ n0, n0) if not c.get("exact") else W
            if c.get("exact") and np.all(P == np.round(P)):
                W = np.column_stack((P[:, 0], P[:, 1], np.zeros(len(P))))
                W = np.unique(W, axis=0)
        elif kind == "collinear":
            W = P[0] + np.outer(np.arange(5.0), P[1] - P[0])
        elif kind == "three-points":
            W = P[:3]
        else:
            W = P.copy()
            W[int(rng.integers(len(W))), int(rng.integers(3))] = np.inf if kind == "infinite-coordinate" else np.nan
        expect_invalid(rec, label + ":spans-no-solid:" + kind, lambda: make3(W), dict(info, vertices=W))
        return
    if mode == 4:       # curved shapes
        which = ["Circle", "Ellipse", "Sphere", "Ellipsoid"][(i // 6) % 4]
        k = {"Circle": 1, "Ellipse": 2, "Sphere": 1, "Ellipsoid": 3}[which]
        ax, _ = gen.axes_case(rng, k)
        cen, _ = gen.center_case(rng, max(ax))
        carg = np.array(cen) if rng.random() < 0.6 else tuple(cen)
        info = {"class": which, "axes": ax, "center": cen}
        if rng.random() < 0.25:
            # radii / semi-axes handed over as 0-d arrays (what indexing a parameter array with [()] or np.asarray(x) gives):
            # they are the caller's arrays like any other - not to be kept, not to be written into by a later resize
            axarg = [np.array(a, dtype=np.float64) for a in ax]
            rec.cls("curved:axes-as-0d-arrays")
            sizeprop = "area" if which in ("Circle", "Ellipse") else "volume"
            expect_valid(rec, st, which + ":valid", lambda: getattr(cs, which)(*axarg, carg), info,
                         after=lambda s: setattr(s, sizeprop, 1.7 * float(getattr(s, sizeprop))))
        expect_valid(rec, st, which + ":valid", lambda: getattr(cs, which)(*ax, carg), info,
                     after=lambda s: s.centroid.__setitem__(0, 99.0) if isinstance(s.centroid, np.ndarray) and s.centroid.flags.writeable else None)
        bad = list(ax)
        j = int(rng.integers(k))
        val = [0, 0.0, -1, -abs(ax[j]), -1e-300, float("-inf")][int(rng.integers(6))]
        bad[j] = val
        expect_invalid(rec, which + ":nonpositive", lambda: getattr(cs, which)(*bad, carg), dict(info, axes=bad))
        rec.nontriv(which, bad, cen)
        bad2 = list(ax)
        bad2[j] = float("nan")
        rec.cls(which + ":nan")
        try:
            getattr(cs, which)(*bad2, carg)
            rec.violation("invalid-rejected", which + ":nan/accepted", dict(info, axes=bad2))
        except Exception:
            rec.ok("invalid-rejected")
        return
    # mode 5: general Polyhedron: face containers must not be stored or written into
    c = gen.mesh_case(rng, kinds=("convexcopy", "voxel", "perturbed"))
    V, faces = c["V"], c["faces"]
    perm, sf = gen.scramble_faces(rng, len(V), faces, relabel=False)
    farg = [np.array(f) for f in sf] if rng.random() < 0.6 else [list(f) for f in sf]
    info = {"class": "Polyhedron", "vertices": V, "faces": sf, "kind": c["kind"]}
    expect_valid(rec, st, "Polyhedron:valid", lambda: cs.Polyhedron(container(rng, V), farg, faces_are_convex=True), info,
                 after=lambda s: (s.sort_faces(), setattr(s, "centroid", (0.5, 0.25, -1.0))))
    rec.nontriv("Polyhedron", V, sf)
    if i < 12:
        rec.sample({"class": "Polyhedron", "kind": c["kind"], "nfaces": len(sf)})

"""C01 -- ConvexPolyhedron volume, area, centroid, inertia tensor are exact.

Monitor: postconditions on the real getters of ConvexPolyhedron (they also run when the
library reads them internally).  Oracle: O-hull facets (no qhull for <=36 points, checked
qhull proposals above) + O-solid signed tetrahedra, exact rationals for lattice input;
per-face area/centroid from the oracle facet matched by vertex set; order independence by
constructing the same point set in a second order."""

from fractions import Fraction

import numpy as np

from .. import aging, contracts, gen, geom

PROPERTY = "C01"
RULE = ("G-convex: 4-60 points on ellipsoids (round/flat/needle, aspect up to 100), integer lattice polytopes with coplanar "
        "facets, prisms/antiprisms/(di)pyramids/frusta/boxes over regular and irregular bases, tabulated solids; random rigid "
        "motion with |offset|/diameter in {0,0.1,1,10}; two vertex orders each.  Non-trivial = offset ratio > 0, or a facet "
        "with more than 3 vertices, or aspect > 10; distinct = SHA-1 of rounded sorted vertices.")
ASSUMPTIONS = ["points are in convex position with a margin by construction (strictly convex surfaces / strict hull vertices)",
               "tolerances relative to natural magnitudes: volume 1e-9 d^2 L, area 1e-9 d L, centroid 1e-9 L, inertia 1e-8 V L^2"]
ANCHORS = ["coxeter.shapes.convex_polyhedron:ConvexPolyhedron.__init__",
           "coxeter.shapes.convex_polyhedron:ConvexPolyhedron._combine_simplices",
           "coxeter.shapes.convex_polyhedron:ConvexPolyhedron._sort_simplices",
           "coxeter.shapes.convex_polyhedron:ConvexPolyhedron._centroid_from_triangulated_surface",
           "coxeter.shapes.convex_polyhedron:ConvexPolyhedron._compute_inertia_tensor",
           "coxeter.shapes.convex_polyhedron:ConvexPolyhedron.get_face_area",
           "coxeter.shapes.convex_polyhedron:ConvexPolyhedron._find_face_centroids",
           "coxeter.shapes.convex_polyhedron:ConvexPolyhedron._calculate_signed_volume",
           "coxeter.shapes.utils:translate_inertia_tensor"]
REQUIRED_MONITORS = ["ConvexPolyhedron.volume", "ConvexPolyhedron.surface_area", "ConvexPolyhedron.centroid",
                     "ConvexPolyhedron.inertia_tensor", "ConvexPolyhedron.get_face_area", "ConvexPolyhedron.face_centroids",
                     "order-independence", "lattice-exact"]
REQUIRED_CLASSES = ["kind:lattice", "kind:tabulated", "kind:prism", "kind:ellipsoid-flat", "kind:ellipsoid-needle",
                    "offset:10.0", "offset:0.0", "history:aged-object", "history:sibling-aged", "kind:exact-needle", "kind:exact-low-apex", "kind:exact-plate"]

_cache = {}


def ncases(tier):
    return 1400 if tier == "quick" else 30000


def facts(V):
    V = np.asarray(V, float)
    key = V.tobytes()
    if key not in _cache:
        if len(_cache) > 64:
            _cache.clear()
        h = geom.hull_facets(V)
        vol, cen, I = geom.solid_exact(h.tris())
        fa = geom.mesh_area(V, h.facets)
        fc = []
        for f, n in zip(h.facets, h.normals):
            E = geom.poly3d_exact(V[f], n)
            fc.append(E["centroid"])
        _cache[key] = {"hull": h, "V": vol, "c": cen, "I": I, "S": float(fa.sum()),
                       "face_area": {frozenset(f): a for f, a in zip(h.facets, fa)},
                       "face_cen": {frozenset(f): c for f, c in zip(h.facets, fc)},
                       "L": float(np.linalg.norm(V, axis=1).max()), "d": gen.diameter(V)}
    return _cache[key]


def register_exact(P, Pint, e):
    """Facts for an exactly representable solid (P == Pint / 2^e) from integer arithmetic only; tolerances of the
    monitors become relative to each quantity itself (``exact`` flag), since nothing here is rounded before the end."""
    import math

    P = np.asarray(P, float)
    facets, normals = geom.hull_exact_int(Pint)
    sc = Fraction(1, 1 << e)
    fl, fa, fc, nl = [], [], [], []
    for f, N in zip(facets, normals):
        nf = np.array([float(x) for x in N])
        nf /= math.sqrt(float(N[0] * N[0] + N[1] * N[1] + N[2] * N[2]))
        cyc = geom._order_facet(P, list(f), nf)
        fl.append(cyc)
        nl.append(nf)
        fa.append(math.sqrt(float(Fraction(geom.facet_area2_int(Pint, cyc), 4) * sc ** 4)))
        a = Pint[cyc[0]]
        wsum, csum = 0, [0, 0, 0]
        for t in range(1, len(cyc) - 1):
            b, c = Pint[cyc[t]], Pint[cyc[t + 1]]
            u = [b[k] - a[k] for k in range(3)]
            v = [c[k] - a[k] for k in range(3)]
            cr = (u[1] * v[2] - u[2] * v[1], u[2] * v[0] - u[0] * v[2], u[0] * v[1] - u[1] * v[0])
            w = cr[0] * N[0] + cr[1] * N[1] + cr[2] * N[2]
            wsum += w
            for k in range(3):
                csum[k] += w * (a[k] + b[k] + c[k])
        fc.append(np.array([float(Fraction(csum[k], 3 * wsum) * sc) for k in range(3)]))
    Vq, cq, Iq = geom.solid_exact_fraction(Pint, fl)
    h = geom.Hull(P, fl, np.array(nl), np.array([float(np.mean(P[f] @ n)) for f, n in zip(fl, nl)]))
    _cache[P.tobytes()] = {"hull": h, "V": float(Vq * sc ** 3), "c": np.array([float(x * sc) for x in cq]),
                           "I": np.array([[float(x * sc ** 5) for x in r] for r in Iq]), "S": float(sum(fa)),
                           "face_area": {frozenset(f): a for f, a in zip(fl, fa)},
                           "face_cen": {frozenset(f): c for f, c in zip(fl, fc)},
                           "L": float(np.linalg.norm(P, axis=1).max()), "d": gen.diameter(P), "exact": True}
    return _cache[P.tobytes()]


def _wit(s, **kw):
    w = {"vertices": np.asarray(s.vertices)}
    w.update(kw)
    return w


def setup(rec, tier):
    import coxeter.shapes as cs

    C = cs.ConvexPolyhedron

    def vol_post(s, a, k, res, tok):
        F = facts(s.vertices)
        rec.close("ConvexPolyhedron.volume", float(res), F["V"], 1e-9 * (F["V"] if F.get("exact") else F["d"] ** 2 * F["L"]),
                  "ConvexPolyhedron.volume", lambda: _wit(s))

    def area_post(s, a, k, res, tok):
        F = facts(s.vertices)
        rec.close("ConvexPolyhedron.surface_area", float(res), F["S"], 1e-9 * (F["S"] if F.get("exact") else F["d"] * F["L"]),
                  "ConvexPolyhedron.surface_area", lambda: _wit(s))

    def cen_post(s, a, k, res, tok):
        F = facts(s.vertices)
        rec.close("ConvexPolyhedron.centroid", np.asarray(res, float), F["c"], (1e-12 if F.get("exact") else 1e-9) * F["L"], "ConvexPolyhedron.centroid",
                  lambda: _wit(s))

    def it_post(s, a, k, res, tok):
        F = facts(s.vertices)
        # (exactly representable solids: the truth is not rounded and the unchanged code is within 1e-15 of it on every class of
        # them, so a part in 1e12 of the largest possible entry is already a defect - e.g. a small product of inertia "cleaned" to 0)
        rec.close("ConvexPolyhedron.inertia_tensor", np.asarray(res, float), F["I"], (1e-12 if F.get("exact") else 1e-8) * F["V"] * F["L"] ** 2,
                  "ConvexPolyhedron.inertia_tensor", lambda: _wit(s))

    def _face_sets(s):
        return [frozenset(int(i) for i in f) for f in s.faces]

    def _pieces(s, F, sets):
        """Faces that are not the band oracle's facets: if they are the exact pieces of facets that are planar only up to
        the rounding of their coordinates (geom.split_hull), extend the per-face facts by those pieces; else False."""
        if F.get("exact"):
            return False
        key = tuple(sorted(tuple(sorted(st)) for st in sets))
        if F.get("_pieces_key") != key:
            V = np.asarray(s.vertices, float)
            h2 = geom.split_hull(V, F["hull"], [sorted(st) for st in sets])
            F["_pieces_key"] = key
            F["_pieces_ok"] = h2 is not None
            if h2 is not None:
                rec.cls("face-planar-only-up-to-rounding:reported-in-exact-pieces")
                fa = geom.mesh_area(V, h2.facets)
                for f, n, a_ in zip(h2.facets, h2.normals, fa):
                    F["face_area"].setdefault(frozenset(f), a_)
                    F["face_cen"].setdefault(frozenset(f), geom.poly3d_exact(V[f], n)["centroid"])
        return F["_pieces_ok"]

    def fa_post(s, a, k, res, tok):
        F = facts(s.vertices)
        arg = a[0] if a else k.get("face", None)
        sets = _face_sets(s)
        tol = 1e-9 * F["d"] * F["L"]
        mon = "ConvexPolyhedron.get_face_area"
        if isinstance(arg, str):
            rec.close(mon, float(res), F["S"], 1e-9 * F["S"] if F.get("exact") else tol, mon + "/total", lambda: _wit(s, arg=arg))
            return
        if arg is None:
            idx = list(range(len(sets)))
        elif hasattr(arg, "__len__"):
            idx = [int(x) for x in arg]
        else:
            idx = [int(arg)]
        got = np.atleast_1d(np.asarray(res, float))
        want = []
        for j in idx:
            if sets[j] not in F["face_area"] and not (_pieces(s, F, sets) and sets[j] in F["face_area"]):
                rec.violation(mon, mon + "/face-is-not-a-hull-facet", lambda: _wit(s, face=sorted(sets[j])))
                return
            want.append(F["face_area"][sets[j]])
        # exactly representable solids: each face against its own exact area (a sum of positive triangle areas is well conditioned)
        if F.get("exact") and got.shape == (len(want),):
            rec.close(mon, got / np.array(want), np.ones(len(want)), 1e-9, mon + "/per-face-relative", lambda: _wit(s, arg=arg, want_areas=want, got_areas=got))
        else:
            rec.close(mon, got, np.array(want), tol, mon + "/per-face", lambda: _wit(s, arg=arg))

    def fc_post(s, a, k, res, tok):
        F = facts(s.vertices)
        sets = _face_sets(s)
        mon = "ConvexPolyhedron.face_centroids"
        want = []
        for st in sets:
            if st not in F["face_cen"] and not (_pieces(s, F, sets) and st in F["face_cen"]):
                rec.violation(mon, mon + "/face-is-not-a-hull-facet", lambda: _wit(s, face=sorted(st)))
                return
            want.append(F["face_cen"][st])
        rec.close(mon, np.asarray(res, float), np.array(want), 1e-9 * F["L"], mon, lambda: _wit(s))

    contracts.hook(C, "volume", post=vol_post)
    contracts.hook(C, "surface_area", post=area_post)
    contracts.hook(C, "centroid", post=cen_post)
    contracts.hook(C, "inertia_tensor", post=it_post)
    contracts.hook(C, "get_face_area", post=fa_post)
    contracts.hook(C, "face_centroids", post=fc_post)
    return {"cs": cs}


def _read_all(s, rng, rec):
    out = {}
    for m in ["volume", "surface_area", "centroid", "center", "inertia_tensor", "face_centroids"]:
        try:
            out[m] = getattr(s, m)
        except Exception as e:
            rec.violation("ConvexPolyhedron." + m, f"ConvexPolyhedron.{m}/raises-{type(e).__name__}", _wit(s, exc=repr(e)))
    nf = len(s.faces)
    j = int(rng.integers(nf))
    sub = [int(x) for x in rng.choice(nf, size=min(3, nf), replace=False)]
    for arg in (None, j, sub, "total"):
        try:
            s.get_face_area(arg) if arg is not None else s.get_face_area()
        except Exception as e:
            rec.violation("ConvexPolyhedron.get_face_area", f"ConvexPolyhedron.get_face_area/raises-{type(e).__name__}",
                          _wit(s, arg=arg, exc=repr(e)))
    return out


def run_case(i, rng, rec, tier, state):
    cs = state["cs"]
    if i % 12 == 5:
        # exactly representable extreme solids (needles / plates stretched by 2^10..2^20, facets 1e-11..1e-4 rad from coplanar):
        # the float oracle's band cannot judge them; the facts come from integer arithmetic and are registered for both orders
        c = gen.convex_exact_extreme(rng)
        c.update(offset_ratio=-1.0, exact=False)
        register_exact(c["P"], c["Pint"], c["e"])
    else:
        c = gen.convex_case(rng)
    P = c["P"]
    try:
        s = cs.ConvexPolyhedron(P.copy())
    except Exception as e:
        rec.note("construct-failed (judged by C15, not here): " + type(e).__name__)
        return
    rec.cls("kind:" + c["kind"])
    rec.cls("offset:" + str(c["offset_ratio"]) if c["offset_ratio"] in (0.0, 0.1, 1.0, 10.0) else "offset:int-translation")
    a = _read_all(s, rng, rec)
    # second vertex order: values must agree with the first
    perm = rng.permutation(len(P))
    if "Pint" in c:
        register_exact(P[perm], [c["Pint"][j] for j in perm], c["e"])
    try:
        s2 = cs.ConvexPolyhedron(P[perm].copy())
        b = _read_all(s2, rng, rec)
        F = facts(P)
        tols = {"volume": 1e-9 * F["d"] ** 2 * F["L"], "surface_area": 1e-9 * F["d"] * F["L"], "centroid": 1e-9 * F["L"],
                "inertia_tensor": 1e-8 * F["V"] * F["L"] ** 2}
        for m, tol in tols.items():
            if m in a and m in b:
                rec.close("order-independence", np.asarray(b[m], float), np.asarray(a[m], float), 2 * tol,
                          f"ConvexPolyhedron.{m}/depends-on-vertex-order", lambda: {"vertices": P, "perm": perm, "member": m})
    except Exception as e:
        rec.violation("order-independence", "ConvexPolyhedron.__init__/raises-for-permuted-input", {"vertices": P, "perm": perm, "exc": repr(e)})
    # exact rational opinion for integer input
    if c.get("exact") and np.all(P == np.round(P)):
        F = facts(P)
        h = F["hull"]
        Vq, cq, Iq = geom.solid_exact_fraction([[int(x) for x in p] for p in P], h.facets)
        ok = (abs(float(Vq) - F["V"]) <= 1e-11 * float(Vq) and np.allclose([float(x) for x in cq], F["c"], atol=1e-11 * (1 + F["L"]))
              and np.allclose([[float(x) for x in r] for r in Iq], F["I"], atol=1e-10 * (1 + F["V"] * F["L"] ** 2)))
        rec.check("lattice-exact", ok, "oracle/float-vs-rational-disagree", {"P": P})
        if "volume" in a:
            rec.close("lattice-exact", float(a["volume"]), float(Vq), 1e-9 * F["d"] ** 2 * F["L"], "ConvexPolyhedron.volume/lattice-exact",
                      lambda: _wit(s))
        if "inertia_tensor" in a:
            rec.close("lattice-exact", np.asarray(a["inertia_tensor"], float), np.array([[float(x) for x in r] for r in Iq]),
                      1e-8 * F["V"] * F["L"] ** 2 + 1e-12, "ConvexPolyhedron.inertia_tensor/lattice-exact", lambda: _wit(s))
    # one case in four goes on with the same object: reads have filled whatever it memoises; now it is resized, moved,
    # reoriented through the public API and read again - the postconditions judge against the *current* vertices
    if i % 4 == 1 and "Pint" not in c:       # (the extreme solids stay as built: moved or reoriented they leave the stated ranges)
        hist, _sib = aging.age_or_sibling(s, rng, reads=False)
        rec.cls("history:aged-object" if _sib is None else "history:sibling-aged")
        if not np.all(np.isfinite(np.asarray(s.vertices, float))):
            rec.violation("ConvexPolyhedron.vertices", "ConvexPolyhedron/non-finite-vertices-after-history", {"vertices": P, "history": hist})
        else:
            _read_all(s, rng, rec)
    F = facts(P)
    bigface = any(len(f) > 3 for f in F["hull"].facets)
    if c["offset_ratio"] > 0 or bigface or c.get("aspect", 1) > 10:
        rec.nontriv(P[np.lexsort(P.T)])
    if i < 5:
        rec.sample({"kind": c["kind"], "n": len(P), "offset_ratio": c["offset_ratio"], "vertices": P[:8], "facets": len(F["hull"].facets)})

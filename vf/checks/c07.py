"""C07 -- Face, normal, neighbour and edge structure of polyhedra is consistent.

Monitor: structural postcondition evaluated on every ConvexPolyhedron the workload (or the
library) constructs, and on every Polyhedron after sort_faces / merge_faces return.
Oracle: O-hull facets (supporting-plane enumeration, no qhull for <=36 points)."""

import numpy as np

from .. import aging, contracts, gen, geom

PROPERTY = "C07"
RULE = ("G-convex vertex sets in two vertex orders (structure postcondition at the end of ConvexPolyhedron.__init__); G-mesh(e): "
        "convex and non-convex closed meshes whose faces are arbitrarily permuted, reversed and relabelled before sort_faces, and "
        "fan-triangulated convex surfaces before merge_faces.  Non-trivial = a facet with more than 3 vertices or more than 12 "
        "faces; distinct = SHA-1 of rounded sorted vertices (+ scramble).")
ASSUMPTIONS = ["no near-coplanar non-facets are generated (exactly coplanar lattice facets or generic position)",
               "coplanarity band of the oracle is 1e-9*size"]
ANCHORS = ["coxeter.shapes.convex_polyhedron:ConvexPolyhedron._combine_simplices",
           "coxeter.shapes.convex_polyhedron:ConvexPolyhedron._sort_simplices",
           "coxeter.shapes.convex_polyhedron:ConvexPolyhedron.sort_faces",
           "coxeter.shapes.polyhedron:Polyhedron._find_neighbors", "coxeter.shapes.polyhedron:Polyhedron._get_face_intersections",
           "coxeter.shapes.polyhedron:Polyhedron.edges", "coxeter.shapes.polyhedron:Polyhedron.sort_faces",
           "coxeter.shapes.polyhedron:Polyhedron.merge_faces", "coxeter.shapes.polyhedron:Polyhedron.get_dihedral"]
REQUIRED_MONITORS = ["convex:faces-are-hull-facets", "convex:face-ccw-from-outside", "convex:equations", "convex:neighbors",
                     "convex:edges", "convex:euler", "convex:simplices", "convex:dihedral", "sort_faces:outward-ccw",
                     "merge_faces:hull-facets", "order-independence"]
REQUIRED_CLASSES = ["convex:lattice", "convex:tabulated", "convex:exact", "convex:bigprism", "scramble:convex", "scramble:voxel", "merge:convex", "history:aged-object"]


def ncases(tier):
    return 900 if tier == "quick" else 20000


def cyc_eq(a, b):
    a, b = [int(x) for x in a], [int(x) for x in b]
    if len(a) != len(b) or set(a) != set(b):
        return False
    k = b.index(a[0])
    return a == b[k:] + b[:k]


_EXACT = {}      # vertex bytes -> Hull from integer arithmetic, for the exactly representable extreme solids


def check_convex(rec, s, tag=""):
    """Structural postcondition of a constructed ConvexPolyhedron."""
    V = np.asarray(s.vertices, float)
    h = _EXACT.get(V.tobytes()) or geom.hull_facets(V)
    L = float(np.linalg.norm(V, axis=1).max())
    d = gen.diameter(V)
    wit = lambda **kw: dict({"vertices": V}, **kw)  # noqa: E731
    faces = [[int(i) for i in f] for f in s.faces]
    oracle = {frozenset(f): (f, n, o) for f, n, o in zip(h.facets, h.normals, h.offsets)}
    sets = [frozenset(f) for f in faces]
    ok_sets = set(sets) == set(oracle) and len(sets) == len(set(sets)) and all(len(f) == len(set(f)) for f in faces)
    if not ok_sets and V.tobytes() not in _EXACT and all(len(f) == len(set(f)) for f in faces):
        # a face that is planar only up to the rounding of its coordinates: the exact hull of the stored floats has it in
        # pieces, and reporting the pieces (or some of them merged) is as right as reporting the whole - see geom.split_hull
        h2 = geom.split_hull(V, h, faces)
        if h2 is not None:
            rec.cls("face-planar-only-up-to-rounding:reported-in-exact-pieces")
            h = h2
            oracle = {frozenset(f): (f, n, o) for f, n, o in zip(h.facets, h.normals, h.offsets)}
            ok_sets = True
    rec.check("convex:faces-are-hull-facets", ok_sets, "ConvexPolyhedron.faces/not-the-hull-facets" + tag,
              lambda: wit(faces=faces, oracle=[list(f) for f in h.facets]))
    if not ok_sets:
        return h
    eq = np.asarray(s.equations, float)
    nrm = np.asarray(s.normals, float)
    for i, f in enumerate(faces):
        of, on, oo = oracle[sets[i]]
        rec.check("convex:face-ccw-from-outside", cyc_eq(f, of), "ConvexPolyhedron.faces/not-ccw-from-outside" + tag,
                  lambda: wit(face=f, oracle_cycle=of))
        good = (abs(np.linalg.norm(eq[i, :3]) - 1) <= 1e-9 and np.all(np.abs(eq[i, :3] - on) <= 1e-7)
                and np.all(np.abs(V[f] @ eq[i, :3] + eq[i, 3]) <= 1e-9 * L + 1e-7 * d)
                and np.all((V @ eq[i, :3] + eq[i, 3])[[j for j in range(len(V)) if j not in sets[i]]] < 0)
                and np.all(nrm[i] == eq[i, :3]))
        rec.check("convex:equations", bool(good), "ConvexPolyhedron.equations/not-unit-outward-through-face" + tag,
                  lambda: wit(face=f, equation=eq[i], oracle_normal=on, oracle_offset=oo))
    # neighbours
    nb = [sorted(int(x) for x in n) for n in s.neighbors]
    want_nb = [set() for _ in faces]
    idx = {st: i for i, st in enumerate(sets)}
    for (a, b), fs in h.edge_faces.items():
        i, j = idx[frozenset(h.facets[fs[0]])], idx[frozenset(h.facets[fs[1]])]
        want_nb[i].add(j)
        want_nb[j].add(i)
    sym = all((i in nb[j]) for i in range(len(nb)) for j in nb[i])
    rec.check("convex:neighbors", sym and all(set(nb[i]) == want_nb[i] and len(nb[i]) == len(set(nb[i])) for i in range(len(nb))),
              "ConvexPolyhedron.neighbors/not-symmetric-or-not-edge-sharing" + tag, lambda: wit(neighbors=nb, want=[sorted(x) for x in want_nb]))
    # edges
    E = np.asarray(s.edges)
    el = [tuple(int(x) for x in e) for e in E]
    okE = (E.ndim == 2 and E.shape[1] == 2 and all(a < b for a, b in el) and len(set(el)) == len(el) and set(el) == set(h.edges)
           and el == sorted(el))
    rec.check("convex:edges", okE, "ConvexPolyhedron.edges/duplicate-missing-or-unordered" + tag, lambda: wit(edges=el, want=h.edges))
    rec.check("convex:euler", int(s.num_edges) == len(h.edges) and len(V) - len(h.edges) + len(faces) == 2 and int(s.num_faces) == len(faces)
              and int(s.num_vertices) == len(V),
              "ConvexPolyhedron.num_edges/euler-mismatch" + tag, lambda: wit(num_edges=int(s.num_edges), E=len(h.edges), F=len(faces)))
    if okE:
        ev = np.asarray(s.edge_vectors, float)
        ln = np.asarray(s.edge_lengths, float)
        rec.check("convex:edges", np.allclose(ev, V[E[:, 1]] - V[E[:, 0]], atol=1e-12 * L) and np.allclose(ln, np.linalg.norm(V[E[:, 1]] - V[E[:, 0]], axis=1), atol=1e-12 * L),
                  "ConvexPolyhedron.edge_vectors/not-matching-edges" + tag, lambda: wit())
    # simplices triangulate the faces
    S = np.asarray(s.simplices)
    okS = S.ndim == 2 and S.shape[1] == 3 and len(S) == sum(len(f) - 2 for f in faces)
    if okS:
        tri = V[S]
        tn = np.cross(tri[:, 1] - tri[:, 0], tri[:, 2] - tri[:, 0])
        area_by_face = {st: 0.0 for st in sets}
        for t, sx in enumerate(S):
            owner = [st for st in sets if set(int(x) for x in sx) <= st]
            if len(owner) != 1:
                okS = False
                break
            on = oracle[owner[0]][1]
            if np.dot(tn[t], on) <= 0:
                okS = False
                break
            area_by_face[owner[0]] += np.linalg.norm(tn[t]) / 2
        if okS:
            fa = geom.mesh_area(V, [oracle[st][0] for st in sets])
            okS = all(abs(area_by_face[st] - fa[i]) <= 1e-9 * d * d for i, st in enumerate(sets))
    rec.check("convex:simplices", bool(okS), "ConvexPolyhedron.simplices/do-not-triangulate-faces-outward" + tag, lambda: wit(simplices=S))
    # dihedrals of neighbour pairs
    okD = True
    for i in range(len(faces)):
        for j in nb[i]:
            if j > i:
                n1, n2 = oracle[sets[i]][1], oracle[sets[j]][1]
                want = np.pi - np.arctan2(np.linalg.norm(np.cross(n1, n2)), np.dot(n1, n2))
                try:
                    got = float(s.get_dihedral(i, j))
                except Exception:
                    got = np.nan
                if not abs(got - want) <= 1e-6:
                    okD = False
    rec.check("convex:dihedral", okD, "ConvexPolyhedron.get_dihedral/not-interior-angle" + tag, lambda: wit())
    return h


def check_oriented(rec, mon, s, V, want_faces, mech, winfo):
    """faces of s must be want_faces (as cycles, CCW outward), in any face order."""
    got = [[int(i) for i in f] for f in s.faces]
    want = {frozenset(f): list(f) for f in want_faces}
    ok = len(got) == len(want) and all(frozenset(f) in want and cyc_eq(f, want[frozenset(f)]) for f in got)
    rec.check(mon, ok, mech, lambda: dict(winfo, got_faces=got, want_faces=[list(f) for f in want_faces]))
    if ok:
        eq = np.asarray(s._equations if not hasattr(s, "equations") else s.equations, float)
        # every plane equation must be the outward unit normal through its face
        good = True
        for i, f in enumerate(got):
            n = np.zeros(3)
            p = V[f]
            for t in range(1, len(f) - 1):
                n += np.cross(p[t] - p[0], p[t + 1] - p[0])
            n /= np.linalg.norm(n)
            if not (np.all(np.abs(np.asarray(s.normals)[i] - n) <= 1e-7) and abs(float(np.asarray(s.normals)[i] @ p[0]) + eq[i, 3]) <= 1e-9 * (1 + np.abs(p).max())):
                good = False
        rec.check(mon + ":equations", good, mech + "/equations-not-refreshed", lambda: dict(winfo, equations=eq))


def check_edges_general(rec, s, tag, winfo):
    """Edge list / count / Euler relation of a *general* Polyhedron that holds a convex surface (after sort_faces or
    merge_faces): each edge once as (i<j), exactly the pairs consecutive in some face; V-E+F=2; edge vectors match."""
    got = [[int(i) for i in f] for f in s.faces]
    want = set()
    for f in got:
        for a, b in zip(f, f[1:] + f[:1]):
            want.add((min(a, b), max(a, b)))
    E = np.asarray(s.edges)
    el = [tuple(int(x) for x in e) for e in E] if E.ndim == 2 else []
    ok = E.ndim == 2 and E.shape[1] == 2 and all(a < b for a, b in el) and len(set(el)) == len(el) and set(el) == want
    rec.check("convex:edges", ok, "Polyhedron.edges/duplicate-missing-or-unordered" + tag, lambda: dict(winfo, edges=el[:40], n_edges=len(el), want=len(want)))
    nv = len(s.vertices)
    rec.check("convex:euler", int(s.num_edges) == len(want) and nv - int(s.num_edges) + len(got) == 2,
              "Polyhedron.num_edges/euler-mismatch" + tag, lambda: dict(winfo, num_edges=int(s.num_edges), V=nv, F=len(got), E=len(want)))
    if ok:
        V = np.asarray(s.vertices, float)
        L = float(np.abs(V).max()) + 1e-300
        try:
            good = (np.allclose(np.asarray(s.edge_vectors, float), V[E[:, 1]] - V[E[:, 0]], rtol=0, atol=1e-12 * L)
                    and np.allclose(np.asarray(s.edge_lengths, float), np.linalg.norm(V[E[:, 1]] - V[E[:, 0]], axis=1), rtol=0, atol=1e-12 * L))
        except Exception:
            good = False
        rec.check("convex:edges", good, "Polyhedron.edge_vectors/not-matching-edges" + tag, lambda: dict(winfo))


def setup(rec, tier):
    import coxeter.shapes as cs

    def init_post(s, a, k, res, tok):
        if type(s) is cs.ConvexPolyhedron:
            check_convex(rec, s)

    contracts.hook(cs.ConvexPolyhedron, "__init__", post=init_post)
    return {"cs": cs}


def run_case(i, rng, rec, tier, state):
    cs = state["cs"]
    mode = i % 3
    if mode == 0:
        if (i // 3) % 8 == 3:
            # exactly representable extreme solids: facets 1e-11..1e-4 rad from coplanar, needles and plates of aspect 2^10..2^20;
            # the oracle's facets come from integer arithmetic (the float band cannot judge these)
            c = gen.convex_exact_extreme(rng)
            _EXACT.clear()
            _EXACT[c["P"].tobytes()] = geom.hull_from_exact(c["P"], c["Pint"])
        elif (i // 3) % 16 == 6:
            # large solids with many-sided faces: prisms / frusta over an irregular convex n-gon, n = 100..260 (more than
            # 512 hull triangles, facets of more than a hundred vertices), in a random rigid placement and vertex order
            n = int(rng.integers(100, 261))
            th = np.sort(rng.uniform(0, 2 * np.pi, n))
            for _ in range(50):
                gaps = np.diff(np.append(th, th[0] + 2 * np.pi))
                if gaps.min() > 0.3 * 2 * np.pi / n:
                    break
                th = np.sort(rng.uniform(0, 2 * np.pi, n))
            else:
                th = np.linspace(0, 2 * np.pi, n, endpoint=False) + rng.uniform(-0.2, 0.2, n) * 2 * np.pi / n
            ab = np.exp(rng.uniform(-0.3, 0.3, size=2))
            ring = np.column_stack((ab[0] * np.cos(th), ab[1] * np.sin(th)))
            top = ring * float(rng.choice([1.0, 0.8]))          # prism or frustum (all side faces stay planar quadrilaterals)
            P0 = np.vstack((np.column_stack((ring, np.zeros(n))), np.column_stack((top, np.full(n, float(rng.uniform(0.5, 2.0)))))))
            P0, _, _, ratio = gen.place(rng, P0, offset_choices=(0.0, 1.0))
            c = {"P": P0[rng.permutation(len(P0))], "kind": "bigprism", "offset_ratio": ratio}
        else:
            c = gen.convex_case(rng, tabulated_frac=0.15)
        P = c["P"]
        try:
            s = cs.ConvexPolyhedron(P.copy())          # monitored: structural postcondition runs here
        except Exception as e:
            # every vertex set drawn here is in convex position by construction: no face structure at all is a failure of
            # the first sentence of the statement (C15 judges acceptance on its own, smaller inputs)
            rec.violation("convex:faces-are-hull-facets", f"ConvexPolyhedron.__init__/raises-{type(e).__name__}-for-points-in-convex-position",
                          {"vertices": P if len(P) <= 60 else P[:60], "n": len(P), "kind": c["kind"], "exc": repr(e)[:200]})
            return
        rec.cls("convex:" + c["kind"].split("-")[0])
        perm = rng.permutation(len(P))
        if "Pint" in c:
            _EXACT[P[perm].tobytes()] = geom.hull_from_exact(P[perm], [c["Pint"][j] for j in perm])
        s2 = cs.ConvexPolyhedron(P[perm].copy())
        f1 = {frozenset(tuple(np.round(P[j], 12)) for j in f) for f in s.faces}
        f2 = {frozenset(tuple(np.round(P[perm][j], 12)) for j in f) for f in s2.faces}
        rec.check("order-independence", f1 == f2, "ConvexPolyhedron.faces/depend-on-vertex-order", {"vertices": P, "perm": perm})
        h = _EXACT.get(P.tobytes()) or geom.hull_facets(P)
        if (i // 3) % 4 == 1 and "Pint" not in c:
            # the same structural postcondition on the object after a public history (resizes, moves, diagonalize_inertia,
            # to_hoomd): faces, equations, neighbours, edges and simplices must describe the current vertices
            hist = aging.age(s, rng)
            rec.cls("history:aged-object")
            try:
                check_convex(rec, s, tag="/after-history")
            except geom.DegenerateInput:
                rec.note("degenerate after history, not judged")
        if any(len(f) > 3 for f in h.facets) or len(h.facets) > 12:
            rec.nontriv(P[np.lexsort(P.T)])
        if i < 6:
            rec.sample({"mode": "convex", "kind": c["kind"], "n": len(P), "faces": len(h.facets), "max_face_degree": max(len(f) for f in h.facets)})
        return
    if mode == 1:
        # sort_faces on scrambled meshes (convex and non-convex)
        c = gen.mesh_case(rng, kinds=("convexcopy", "voxel", "perturbed", "convexcopy"))
        V, faces = c["V"], c["faces"]
        if rng.random() < 0.15:
            V = V * float(10 ** rng.uniform(-9, 6))        # very small / very large units: index look-ups and tolerances must not care
            rec.cls("scramble:extreme-units")
        perm, sf = gen.scramble_faces(rng, len(V), faces)
        V2 = np.empty_like(V)
        V2[perm] = V
        want = [[int(perm[j]) for j in f] for f in faces]
        kind = "convex" if c["kind"] == "convexcopy" else c["kind"]
        rec.cls("scramble:" + kind)
        info = {"mode": "sort_faces", "kind": c["kind"], "vertices": V2, "scrambled_faces": sf}
        iform, sfx = gen.index_form(rng, sf, len(V2))
        rec.cls("face-index-type:" + iform)
        info["face_index_type"] = iform
        try:
            s = cs.Polyhedron(V2.copy(), sfx, faces_are_convex=True)
            s.sort_faces()
        except Exception as e:
            rec.violation("sort_faces:outward-ccw", f"Polyhedron.sort_faces/raises-{type(e).__name__}", dict(info, exc=repr(e)[:300]))
            return
        check_oriented(rec, "sort_faces:outward-ccw", s, V2, want, "Polyhedron.sort_faces/not-outward-ccw/" + kind, info)
        nbs = [sorted(int(x) for x in n) for n in s.neighbors]
        got = [[int(x) for x in f] for f in s.faces]
        es = {}
        for fi, f in enumerate(got):
            for a, b in zip(f, f[1:] + f[:1]):
                es.setdefault((min(a, b), max(a, b)), []).append(fi)
        wantnb = [set() for _ in got]
        for fs in es.values():
            if len(fs) == 2:
                wantnb[fs[0]].add(fs[1])
                wantnb[fs[1]].add(fs[0])
        rec.check("sort_faces:neighbors", all(set(nbs[t]) == wantnb[t] for t in range(len(got))),
                  "Polyhedron.sort_faces/neighbors-stale", lambda: dict(info, neighbors=nbs))
        if c["kind"] == "convexcopy":
            check_edges_general(rec, s, "/after-sort_faces", info)
        if any(len(f) > 3 for f in faces) or len(faces) > 12:
            rec.nontriv(V2, sf)
        if i < 6:
            rec.sample({"mode": "sort_faces", "kind": c["kind"], "nverts": len(V), "nfaces": len(faces), "first_scrambled_face": sf[0]})
        return
    # merge_faces on a fan-triangulated convex surface
    c = gen.convex_case(rng, tabulated_frac=0.1)
    P = c["P"]
    if len(P) > 40:
        P = P[:40]
        P = P[gen.strict_hull_vertices(P)]
    if rng.random() < 0.15:
        P = P * float(10 ** rng.uniform(-9, 6))
        rec.cls("merge:extreme-units")
    h = geom.hull_facets(P)
    if h.min_exterior_angle() < 1e-3:
        # two distinct facets within 1e-3 rad of coplanar: merge_faces' documented tolerances (atol 1e-8, rtol 1e-5)
        # may legitimately merge them; margin-separated inputs only
        rec.note("near-coplanar neighbouring facets (< 1e-3 rad): merge_faces not judged")
        return
    tris = [list(t) for f in h.facets for t in geom.fan(list(np.roll(f, int(rng.integers(len(f))))))]
    order = rng.permutation(len(tris))
    tris = [tris[t] for t in order]
    rec.cls("merge:convex")
    info = {"mode": "merge_faces", "vertices": P, "triangles": tris}
    iform, trx = gen.index_form(rng, tris, len(P))
    rec.cls("face-index-type:" + iform)
    info["face_index_type"] = iform
    try:
        s = cs.Polyhedron(P.copy(), trx)
        s.merge_faces()
    except Exception as e:
        rec.violation("merge_faces:hull-facets", f"Polyhedron.merge_faces/raises-{type(e).__name__}", dict(info, exc=repr(e)[:300]))
        return
    check_oriented(rec, "merge_faces:hull-facets", s, P, h.facets, "Polyhedron.merge_faces/not-the-hull-facets", info)
    check_edges_general(rec, s, "/after-merge_faces", info)
    if any(len(f) > 3 for f in h.facets) or len(h.facets) > 12:
        rec.nontriv(P, "merge")
    if i < 6:
        rec.sample({"mode": "merge_faces", "kind": c["kind"], "n": len(P), "triangles": len(tris), "facets": len(h.facets)})

"""C16 -- Queries are free of side effects.

Monitor: before/after state monitor around every public property getter and query method
found by reflection on all ten classes, plus coxeter.io.to_* / save, to_json, to_hoomd,
gsd_shape_spec, repr.  State = bitwise snapshot of everything reachable from vars(obj)
(cheap, decides "unchanged" exactly); if the snapshot differs outside memoisation /
private scratch, the public fingerprint is compared with the pristine one at 1e-12*L^k.
Also: argument arrays bit-for-bit, arrays handed out earlier, and the same query repeated
(alone, and as second element of every ordered pair) returns the same answer."""

import copy
import os
import random
import shutil
import tempfile
import warnings
from functools import cached_property
import inspect

import numpy as np

from .. import aging, bases, bootstrap, contracts, fingerprint as fpr

PROPERTY = "C16"
RULE = ("Every public getter and query/export method (enumerated by reflection, so new members are included) of every shape class on "
        "base shapes in general position away from the origin: each query alone and repeated, and every ordered pair (q1 then q2; "
        "exhaustive over the reflected list); arguments passed as arrays that are compared bitwise afterwards; every array-valued "
        "observable is fetched beforehand and compared afterwards.  Non-trivial = every (class, base, q1, q2) pair; distinct = that tuple.")
ASSUMPTIONS = ["private scratch attributes (_simplex_areas, _face_centroids) and memoised cached_property values are not observables",
               "observables and handed-out arrays may move by 1e-12*L (operations that move the shape and move it back)",
               "global RNG states are re-seeded identically before each query so that miniball's randomised pivoting is not a difference"]
ANCHORS = ["coxeter.shapes.polygon:Polygon.inertia_tensor", "coxeter.shapes.polygon:Polygon.to_hoomd",
           "coxeter.shapes.polyhedron:Polyhedron.to_hoomd", "coxeter.shapes.convex_spheropolyhedron:ConvexSpheropolyhedron.to_hoomd",
           "coxeter.shapes.convex_spheropolygon:ConvexSpheropolygon.to_hoomd", "coxeter.shapes.sphere:Sphere.to_hoomd",
           "coxeter.shapes.ellipsoid:Ellipsoid.to_hoomd", "coxeter.io:to_stl", "coxeter.shapes.base_classes:Shape.to_json"]
REQUIRED_MONITORS = ["state-unchanged", "argument-unchanged", "handed-out-unchanged", "repeat-same-answer", "pair-second-query-same-answer"]
EXHAUSTIVE = True
SCRATCH = {"_simplex_areas", "_face_centroids"}
CLASSES = ["ConvexPolyhedron", "Polyhedron", "ConvexSpheropolyhedron", "Polygon", "ConvexPolygon", "ConvexSpheropolygon",
           "Circle", "Ellipse", "Sphere", "Ellipsoid"]
_plan = None


# ---------------------------------------------------------------------------
def queries(cs, cls):
    """[(label, callable(shape, tmpdir) -> result, argument factory)]"""
    getters, _, methods = fpr.members(cls)
    Q = []
    for g in getters:
        if g in fpr.DEPRECATED:
            continue
        Q.append(("get:" + g, (lambda s, args, g=g: getattr(s, g)), lambda s: ()))
    if "is_inside" in methods:
        Q.append(("is_inside", lambda s, args: s.is_inside(args[0]), lambda s: (fpr.probe_points(s, 40),)))
        # the same query with the argument in the other forms a caller may hold it in: a bare point, a one-row batch, a
        # Fortran-ordered batch (what np.array([x, y, z]).T gives) - each must come back bit-for-bit as it went in
        Q.append(("is_inside:(3,)", lambda s, args: s.is_inside(args[0]), lambda s: (np.array(fpr.probe_points(s, 40)[3], dtype=np.float64),)))
        Q.append(("is_inside:(1,3)", lambda s, args: s.is_inside(args[0]), lambda s: (np.array(fpr.probe_points(s, 40)[5:6], dtype=np.float64),)))
        Q.append(("is_inside:fortran", lambda s, args: s.is_inside(args[0]), lambda s: (np.asfortranarray(fpr.probe_points(s, 40)),)))
    if "compute_form_factor_amplitude" in methods:
        Q.append(("form_factor", lambda s, args: s.compute_form_factor_amplitude(args[0]), lambda s: (fpr.probe_q(s),)))
        Q.append(("form_factor:(1,3)", lambda s, args: s.compute_form_factor_amplitude(args[0]), lambda s: (np.array(fpr.probe_q(s)[1:2], dtype=np.float64),)))
        Q.append(("form_factor:fortran", lambda s, args: s.compute_form_factor_amplitude(args[0]), lambda s: (np.asfortranarray(fpr.probe_q(s)),)))
    if "distance_to_surface" in methods:
        Q.append(("distance_to_surface", lambda s, args: s.distance_to_surface(args[0]), lambda s: (fpr.ANGLES.copy(),)))
    if "get_face_area" in methods:
        Q.append(("get_face_area()", lambda s, args: s.get_face_area(), lambda s: ()))
        Q.append(("get_face_area([0,1])", lambda s, args: s.get_face_area(args[0]), lambda s: ([0, 1],)))
    if "get_dihedral" in methods:
        # compared through the cosine (NaN = flat): arccos turns last-digit changes of the normals of coplanar
        # neighbours into 1e-8 or NaN, and the statement allows last-digit rounding for move-and-move-back operations
        Q.append(("get_dihedral", lambda s, args: float(np.nan_to_num(np.cos(s.get_dihedral(0, int(s.neighbors[0][0]))), nan=-1.0)), lambda s: ()))
    if "to_json" in methods:
        Q.append(("to_json", lambda s, args: s.to_json(["centroid"] + (["vertices"] if hasattr(s, "vertices") else [])), lambda s: ()))
    if "to_hoomd" in methods:
        Q.append(("to_hoomd", lambda s, args: s.to_hoomd(), lambda s: ()))
    # queries that the shape *refuses* (malformed argument, unknown attribute / file type, unwritable path): a refusal is
    # still a call that must leave the shape as it was - a query that moves the shape, fails and never moves it back shows here
    if "is_inside" in methods:
        Q.append(("is_inside:refused(N,4)", lambda s, args: s.is_inside(args[0]), lambda s: (np.ones((3, 4)),)))
    if "compute_form_factor_amplitude" in methods:
        Q.append(("form_factor:refused(3,)", lambda s, args: s.compute_form_factor_amplitude(args[0]), lambda s: (np.array([0.0, 0.0, 1.0]) / fpr.length_scale(s)[0],)))
        Q.append(("form_factor:refused(N,2)", lambda s, args: s.compute_form_factor_amplitude(args[0]), lambda s: (np.array([[0.3, 0.4], [0.1, 0.2]]) / fpr.length_scale(s)[0],)))
    if "distance_to_surface" in methods:
        Q.append(("distance_to_surface:refused(str)", lambda s, args: s.distance_to_surface(args[0]), lambda s: (["not", "angles"],)))
    if "get_face_area" in methods:
        Q.append(("get_face_area:refused(out-of-range)", lambda s, args: s.get_face_area(args[0]), lambda s: (10 ** 6,)))
    if "get_dihedral" in methods:
        Q.append(("get_dihedral:refused(not-neighbours)", lambda s, args: s.get_dihedral(0, _non_neighbour(s)), lambda s: ()))
    if "to_json" in methods:
        Q.append(("to_json:refused(unknown)", lambda s, args: s.to_json(["centroid", "no_such_attribute"]), lambda s: ()))
    if hasattr(cls, "save"):
        Q.append(("save:refused(unknown-type)", lambda s, args: s.save("XYZ", os.path.join(args[0], "f.xyz")), lambda s: ("TMP",)))
        Q.append(("save:refused(unwritable)", lambda s, args: s.save("OBJ", os.path.join(args[0], "no-such-dir", "f.obj")), lambda s: ("TMP",)))
    Q.append(("repr", lambda s, args: repr(s), lambda s: ()))
    Q.append(("str", lambda s, args: str(s), lambda s: ()))
    if hasattr(cls, "save"):
        for ft in ("OBJ", "OFF", "STL", "PLY", "VTK", "X3D", "HTML"):
            Q.append(("save:" + ft, (lambda s, args, ft=ft: s.save(ft, os.path.join(args[0], "f." + ft.lower()))), lambda s: ("TMP",)))
        import coxeter.io as cio

        for fn in ("to_obj", "to_off", "to_stl", "to_ply", "to_vtk", "to_x3d", "to_html"):
            Q.append(("io." + fn, (lambda s, args, fn=fn: getattr(cio, fn)(s, os.path.join(args[0], fn))), lambda s: ("TMP",)))
    return Q


def _non_neighbour(s):
    nb = {int(x) for x in s.neighbors[0]}
    for j in range(1, len(s.faces)):
        if j not in nb:
            return j
    return 0


def plan():
    global _plan
    if _plan is None:
        bootstrap.ensure()
        import coxeter.shapes as cs

        B = bases.with_zero_d(cs)
        out = []
        for cname in CLASSES:
            n = len(queries(cs, getattr(cs, cname)))
            for bi in range(len(B[cname])):
                for qi in range(n):
                    # (third field of the quick tier's filter: the first base of each class and the variant whose scalar
                    # parameters are zero-dimensional arrays)
                    out.append((cname, bi, qi, bi == 0 or B[cname][bi][0] == bases.ZERO_D))
        _plan = out
    return _plan


def ncases(tier):
    P = plan()
    if tier == "quick":
        return sum(1 for p in P if p[3])
    return len(P)


def select(tier, i):
    P = plan()
    if tier == "quick":
        P = [p for p in P if p[3]]
    return P[i][:3]


# ---------------------------------------------------------------------------
def deep_state(obj, depth=0):
    if depth > 6:
        return ("deep",)
    if isinstance(obj, np.ndarray):
        return ("arr", obj.shape, str(obj.dtype), obj.tobytes())
    if isinstance(obj, (list, tuple)):
        return ("seq", tuple(deep_state(x, depth + 1) for x in obj))
    if isinstance(obj, dict):
        return ("dict", tuple((k, deep_state(v, depth + 1)) for k, v in sorted(obj.items(), key=lambda kv: str(kv[0]))))
    if hasattr(obj, "__dict__") and type(obj).__module__.startswith("coxeter"):
        return ("obj", type(obj).__name__, deep_state(vars(obj), depth + 1))
    if isinstance(obj, (float, np.floating)):
        return ("f", float(obj).hex())
    return ("v", repr(obj))


def state_diff_keys(a, b):
    """Top-level attribute names whose deep state differs."""
    da = dict(a[2][1]) if a[0] == "obj" else {}
    db = dict(b[2][1]) if b[0] == "obj" else {}
    return sorted(k for k in set(da) | set(db) if da.get(k) != db.get(k))


def canon(v, depth=0):
    if depth > 6:
        return ("deep",)
    if hasattr(v, "radius") and hasattr(v, "centroid") and type(v).__module__.startswith("coxeter"):
        return ("ball", type(v).__name__, float(v.radius), np.asarray(v.centroid, float).copy())
    if type(v).__module__.startswith("coxeter") and hasattr(v, "__dict__"):
        return ("shape", type(v).__name__, canon({k: x for k, x in vars(v).items()}, depth + 1))
    if isinstance(v, np.ndarray):
        return v.copy()
    if isinstance(v, dict):
        return ("dict", {str(k): canon(x, depth + 1) for k, x in v.items()})
    if isinstance(v, (list, tuple)):
        return ("seq", [canon(x, depth + 1) for x in v])
    if isinstance(v, (float, int, complex, np.number, bool, np.bool_)):
        return np.asarray(v)
    if isinstance(v, str):
        # strings (repr/str): compare the skeleton exactly and the numbers numerically
        nums = _NUM.findall(v)
        return ("dict", {"skeleton": ("v", _NUM.sub("#", v)), "numbers": np.array([float(x) for x in nums])})
    return ("v", repr(v)[:300])


def canon_equal(a, b, scale):
    if isinstance(a, np.ndarray) and isinstance(b, np.ndarray):
        if a.shape != b.shape:
            return False
        if a.dtype.kind in "OUS" or b.dtype.kind in "OUS":
            return bool(np.all(a == b))
        if a.size == 0:
            return True
        if a.dtype.kind == "b" or b.dtype.kind == "b":
            return bool(np.array_equal(a, b))
        fa, fb = np.isfinite(a), np.isfinite(b)
        if not np.array_equal(fa, fb):
            return False
        m = max(float(np.max(np.abs(a[fa]))) if fa.any() else 0.0, 1e-300)
        return bool(np.all(np.abs(a[fa] - b[fb]) <= 1e-12 * max(m, scale)))
    if isinstance(a, tuple) and isinstance(b, tuple) and len(a) == len(b) and a[0] == b[0]:
        if a[0] == "ball":
            return a[1] == b[1] and canon_equal(np.asarray(a[2]), np.asarray(b[2]), scale) and canon_equal(a[3], b[3], scale)
        if a[0] == "dict":
            return set(a[1]) == set(b[1]) and all(canon_equal(a[1][k], b[1][k], scale) for k in a[1])
        if a[0] == "seq":
            return len(a[1]) == len(b[1]) and all(canon_equal(x, y, scale) for x, y in zip(a[1], b[1]))
        if a[0] == "shape":
            return a[1] == b[1] and canon_equal(a[2], b[2], scale)
        return a == b
    return False


import re  # noqa: E402

_NUM = re.compile(r"[-+]?(?:\d+\.\d*|\.\d+|\d+)(?:[eE][-+]?\d+)?")


class Runner:
    def __init__(self, rec, cs, cname, blabel, ctor, tmp):
        self.rec, self.cs, self.cname, self.blabel, self.tmp = rec, cs, cname, blabel, tmp
        self.s = ctor()
        self.Q = queries(cs, type(self.s))
        with contracts.quiet(), warnings.catch_warnings():
            warnings.simplefilter("ignore")
            self.size, self.L = fpr.length_scale(self.s)
            self.ref_fp = fpr.observe(self.s, light=True)
            # every array-valued observable is handed out before the queries under test run
            self.handed = {}
            getters, _, _ = fpr.members(type(self.s))
            for g in getters:
                if g in fpr.DEPRECATED:
                    continue
                try:
                    v = getattr(self.s, g)
                except Exception:
                    continue
                for tag, arr in self._arrays(g, v):
                    self.handed[tag] = (arr, arr.copy())
            self.ref_state = deep_state(self.s)
            self._orig_state = self.ref_state
        self.allowed = SCRATCH | {n for n in dir(type(self.s)) if isinstance(inspect.getattr_static(type(self.s), n), cached_property)}

    def rebaseline(self):
        """Make the current state the reference (used after the first query of a pair, whose own
        effects are judged in its own case)."""
        with contracts.quiet(), warnings.catch_warnings():
            warnings.simplefilter("ignore")
            self.ref_state = deep_state(self.s)
            if state_diff_keys(self._orig_state, self.ref_state):
                self.ref_fp = fpr.observe(self.s, light=True)
                self.ref_state = deep_state(self.s)
            for tag, (arr, cp) in list(self.handed.items()):
                self.handed[tag] = (arr, arr.copy())

    @staticmethod
    def _arrays(tag, v):
        if isinstance(v, np.ndarray):
            return [(tag, v)]
        if isinstance(v, (list, tuple)):
            return [(f"{tag}[{i}]", x) for i, x in enumerate(v) if isinstance(x, np.ndarray)]
        return []

    def run(self, qi):
        label, fn, mkargs = self.Q[qi]
        args = mkargs(self.s)
        args = tuple(self.tmp if a == "TMP" else a for a in args) if args and isinstance(args[0], str) else args
        before = [a.copy() if isinstance(a, np.ndarray) else copy.deepcopy(a) for a in args]
        random.seed(12345)
        np.random.seed(12345)
        try:
            with warnings.catch_warnings():
                warnings.simplefilter("ignore")
                res = ("ok", canon(fn(self.s, args)))
        except (NotImplementedError, ImportError):
            res = ("not-provided",)
        except Exception as e:
            res = ("raises", type(e).__name__)
        for k, (a, b) in enumerate(zip(args, before)):
            if isinstance(a, np.ndarray):
                same = a.shape == b.shape and a.dtype == b.dtype and a.tobytes() == b.tobytes()
            else:
                same = a == b
            self.rec.check("argument-unchanged", same, f"{self.cname}.{label}/modifies-argument",
                           lambda: {"class": self.cname, "base": self.blabel, "query": label})
        return label, res

    def check_state(self, what, labels):
        rec = self.rec
        info = {"class": self.cname, "base": self.blabel, "queries": labels}
        now = deep_state(self.s)
        changed = state_diff_keys(self.ref_state, now)
        serious = [k for k in changed if k not in self.allowed]
        ok = True
        first = labels[-1] if len(labels) == 1 else "+".join(labels)
        if serious:
            with contracts.quiet():
                fp = fpr.observe(self.s, light=True)
            skip = ()
            diffs = fpr.compare(self.ref_fp, fp, self.L, 1e-12, fpr.is3d(self.s), skip=skip)
            ok = not diffs
            rec.check("state-unchanged", ok, f"{self.cname}.{labels[-1]}/changes-observable:{diffs[0][0] if diffs else ''}",
                      lambda: dict(info, changed_attributes=serious, diffs=diffs[:5]))
            rec.note("internal state changed within rounding (moved and moved back)" if ok else "internal state changed")
        else:
            rec.ok("state-unchanged")
        for tag, (arr, cp) in self.handed.items():
            same = arr.shape == cp.shape and (arr.dtype.kind not in "fc" and np.array_equal(arr, cp) or
                                              arr.dtype.kind in "fc" and bool(np.all(np.abs(arr - cp) <= 1e-12 * self.L)))
            rec.check("handed-out-unchanged", bool(same), f"{self.cname}.{labels[-1]}/alters-array-handed-out-earlier:{tag.split('[')[0]}",
                      lambda tag=tag, arr=arr, cp=cp: dict(info, array=tag, before=cp, after=arr))
            if not same:
                # restore the baseline so that one finding is attributed once
                self.handed[tag] = (arr, arr.copy())
        return ok


def setup(rec, tier):
    import coxeter.shapes as cs

    tmp = tempfile.mkdtemp(prefix="c16_")
    return {"cs": cs, "B": bases.with_zero_d(cs), "tmp": tmp}


def finish(rec, tier, state):
    shutil.rmtree(state["tmp"], ignore_errors=True)


def run_case(i, rng, rec, tier, state):
    cname, bi, qi = select(tier, i)
    cs = state["cs"]
    blabel, ctor = state["B"][cname][bi]
    R = Runner(rec, cs, cname, blabel, ctor, state["tmp"])
    rec.cls(cname)
    # q1 alone, then repeated
    l1, r1 = R.run(qi)
    R.check_state("alone", [l1])
    l1b, r1b = R.run(qi)
    same = r1[0] == r1b[0] and (r1[0] != "ok" or canon_equal(r1[1], r1b[1], R.L)) and (r1[0] != "raises" or r1[1] == r1b[1])
    rec.check("repeat-same-answer", same, f"{cname}.{l1}/repeated-query-differs", {"class": cname, "base": blabel, "query": l1})
    R.check_state("repeat", [l1])
    if r1[0] == "not-provided":
        rec.note(f"{cname}.{l1}: not provided")
    # the same query on an object with a past: every array-valued observable was handed out on the new object, then the shape
    # was moved / resized through its setters (what a setter does to those arrays is its own business: they are re-read
    # afterwards), and only then the query runs - it must leave those earlier arrays and the state alone, and answer the same twice
    R3 = Runner(rec, cs, cname, blabel, ctor, state["tmp"])
    hist = aging.age(R3.s, np.random.default_rng([i, 16]), steps=2, allow=("size", "move", "axis", "radius"), reads=False)
    if hist:
        rec.cls("history:handed-out-then-changed")
        with contracts.quiet():
            R3.size, R3.L = fpr.length_scale(R3.s)
        # first the arrays alone, against copies taken before anything else (even the harness's own observation) reads the shape
        snap = {tag: (arr, arr.copy()) for tag, (arr, _) in R3.handed.items()}
        l3, r3 = R3.run(qi)
        for tag, (arr, cp) in snap.items():
            same = arr.shape == cp.shape and (arr.dtype.kind not in "fc" and np.array_equal(arr, cp) or
                                              arr.dtype.kind in "fc" and bool(np.all(np.abs(arr - cp) <= 1e-12 * R3.L)))
            rec.check("handed-out-unchanged", bool(same), f"{cname}.{l3}/alters-array-handed-out-before-the-shape-was-changed:{tag.split('[')[0]}",
                      lambda tag=tag, arr=arr, cp=cp: {"class": cname, "base": blabel, "query": l3, "history": hist, "array": tag, "before": cp, "after": arr})
        # then state, later arrays and the repeated answer, from a baseline taken on the changed object
        R3.rebaseline()
        l3, r3 = R3.run(qi)
        R3.check_state("after-history", [l3])
        l3b, r3b = R3.run(qi)
        same3 = r3[0] == r3b[0] and (r3[0] != "ok" or canon_equal(r3[1], r3b[1], R3.L)) and (r3[0] != "raises" or r3[1] == r3b[1])
        rec.check("repeat-same-answer", same3, f"{cname}.{l1}/repeated-query-differs-after-history", {"class": cname, "base": blabel, "query": l1, "history": hist})
        R3.check_state("after-history-repeat", [l3])
    # ordered pairs: fresh object per q1 keeps attribution clean; q2's answer must equal its answer on a pristine object
    alone = {}
    Rp = Runner(rec, cs, cname, blabel, ctor, state["tmp"])
    for q2 in range(len(Rp.Q)):
        alone[q2] = Rp.run(q2)[1]
        # (side effects of q2 on Rp are judged in q2's own case; use a fresh object if it changed)
        if state_diff_keys(Rp.ref_state, deep_state(Rp.s)) and not set(state_diff_keys(Rp.ref_state, deep_state(Rp.s))) <= Rp.allowed:
            Rp = Runner(rec, cs, cname, blabel, ctor, state["tmp"])
    for q2 in range(len(R.Q)):
        R2 = Runner(rec, cs, cname, blabel, ctor, state["tmp"])
        R2.run(qi)
        R2.rebaseline()
        l2, r2 = R2.run(q2)
        a = alone[q2]
        same = a[0] == r2[0] and (a[0] != "ok" or canon_equal(a[1], r2[1], R2.L)) and (a[0] != "raises" or a[1] == r2[1])
        rec.check("pair-second-query-same-answer", same, f"{cname}.{l1}/changes-answer-of:{l2}",
                  lambda: {"class": cname, "base": blabel, "first": l1, "second": l2})
        R2.check_state("pair", [l1, l2])
        rec.nontriv(cname, blabel, l1, l2)
    if i % 97 == 0:
        rec.sample({"class": cname, "base": blabel, "first_query": l1, "n_second_queries": len(R.Q)})

"""C17 -- Parametric shape families generate exactly the documented shapes.

Monitor: postcondition on ``get_shape`` / ``make_vertices`` of the ten family classes.
Oracle for the truncation families: the stated half-spaces themselves (public get_planes /
get_plane_types): (i) every returned vertex satisfies every half-space, (ii) every facet of
the result (O-hull) lies on one of the stated planes at its distance, (iii) the volume equals
that of the harness's own vertex enumeration (all plane triples solved independently,
de-duplicated by distance, O-hull + O-solid), (iv) the documented solids at the corners by
V/E/F and equal edges.  n-gon / prism / antiprism / pyramid / dipyramid: unit measure,
origin-centred, equilateral, vertex counts, first vertex on +x."""

import itertools
import math

import numpy as np

from .. import contracts, gen, geom

PROPERTY = "C17"
RULE = ("(a,c) on a grid of each family's rectangle (quick 11x11, thorough 41x41) incl. edges and corners + random interior points; "
        "all truncations on a grid of [0,1]; out-of-domain values (1e-9 outside, +-1, nan); n = 3..200 (every "
        "admissible n, in both tiers) for n-gons, prisms, antiprisms; n = 3..5 for pyramids and dipyramids.  Non-trivial = parameter strictly inside "
        "the domain or on an edge (corners are the documented solids), any n; distinct = (family, parameters).")
ASSUMPTIONS = ["'well-separated' = minimum distance between distinct exact vertices > 1e-4 (harness's own enumeration)",
               "errors are only a violation where the exact vertices are well separated; ValueError is the only allowed error"]
ANCHORS = ["coxeter.families.plane_shape_families:TruncationPlaneShapeFamily.make_vertices",
           "coxeter.families.plane_shape_families:Family323Plus.get_shape", "coxeter.families.plane_shape_families:Family423.get_shape",
           "coxeter.families.plane_shape_families:Family523.get_shape",
           "coxeter.families.plane_shape_families:TruncatedTetrahedronFamily.get_shape", "coxeter.families.common:_make_ngon",
           "coxeter.families.common:UniformPrismFamily.make_vertices", "coxeter.families.common:UniformAntiprismFamily.make_vertices",
           "coxeter.families.common:UniformPyramidFamily.make_vertices", "coxeter.families.common:UniformDipyramidFamily.make_vertices"]
REQUIRED_MONITORS = ["truncation:inside-halfspaces", "truncation:facets-on-stated-planes", "truncation:volume", "truncation:corner-solid",
                     "out-of-domain-rejected", "ngon", "prism", "antiprism", "pyramid", "dipyramid",
                     "regenerated-after-caller-changed-earlier-result"]
S = (1 + math.sqrt(5)) / 2
DOMAIN = {"Family323Plus": ((1.0, 3.0), (1.0, 3.0), 1.0), "Family423": ((1.0, 2.0), (2.0, 3.0), 2.0),
          "Family523": ((1.0, (1 / S) * math.sqrt(5)), (S * S, 3.0), 2.0)}
CORNERS = {
    "Family323Plus": {(0, 0): (6, 12, 8), (1, 0): (4, 6, 4), (0, 1): (4, 6, 4), (1, 1): (8, 12, 6)},
    "Family423": {(0, 0): (12, 24, 14), (1, 0): (6, 12, 8), (0, 1): (8, 12, 6), (1, 1): (14, 24, 12)},
    "Family523": {(0, 0): (30, 60, 32), (1, 0): (12, 30, 20), (0, 1): (20, 30, 12), (1, 1): (32, 60, 30)},
}
_plan = {}


def plan(tier):
    if tier in _plan:
        return _plan[tier]
    out = []
    ng = 11 if tier == "quick" else 41
    for fam in DOMAIN:
        for ia in range(ng):
            for ic in range(ng):
                out.append(("trunc", fam, ia / (ng - 1), ic / (ng - 1)))
        for k in range(60 if tier == "quick" else 1500):
            out.append(("trunc-random", fam, k, None))
        for k in range(10):
            out.append(("ood", fam, k, None))
        # whole-number parameters inside the domain, handed over as integers (the class documentation writes "c=3")
        (a0_, a1_), (c0_, c1_), _b = DOMAIN[fam]
        for ai in range(math.ceil(a0_), math.floor(a1_) + 1):
            for ci in range(math.ceil(c0_), math.floor(c1_) + 1):
                out.append(("trunc-int", fam, ai, ci))
        # interior parameters next to a line where two vertices of the exact intersection merge: separation 2e-4..8e-4,
        # well above the documented 1e-6 resolution yet close enough for a coarser de-duplication to bite
        for k in range(8 if tier == "quick" else 60):
            out.append(("trunc-nearmerge", fam, k, None))
    nt = 41 if tier == "quick" else 401
    for k in range(nt):
        out.append(("ttet", "TruncatedTetrahedronFamily", k / (nt - 1), None))
    for k in range(6):
        out.append(("ood-ttet", "TruncatedTetrahedronFamily", k, None))
    ns = list(range(3, 201))      # finite and cheap: every admissible n in both tiers
    for n in ns:
        for fam in ("RegularNGonFamily", "UniformPrismFamily", "UniformAntiprismFamily"):
            out.append(("n", fam, n, None))
    for n in (3, 4, 5):
        out.append(("n", "UniformPyramidFamily", n, None))
        out.append(("n", "UniformDipyramidFamily", n, None))
    for fam in ("RegularNGonFamily", "UniformPrismFamily", "UniformAntiprismFamily", "UniformPyramidFamily", "UniformDipyramidFamily"):
        for n in (2, 1, 0, -3):
            out.append(("n-bad", fam, n, None))
    _plan[tier] = out
    return out


def ncases(tier):
    return len(plan(tier))


def enumerate_vertices(planes, dists):
    """All vertices of {x: n_i.x <= d_i} by solving every plane triple (own code, distance de-dup)."""
    n = len(planes)
    idx = np.array(list(itertools.combinations(range(n), 3)))
    A = planes[idx]
    det = np.linalg.det(A)
    good = np.abs(det) > 1e-9
    X = np.linalg.solve(A[good], dists[idx[good]][..., None])[..., 0]
    feas = np.all(X @ planes.T <= dists[None, :] + 1e-9, axis=1)
    X = X[feas]
    keep = []
    for x in X:
        if all(np.linalg.norm(x - y) > 1e-7 for y in keep):
            keep.append(x)
    return np.array(keep)


def regenerated(rec, fam, get, info):
    """A family is a generator, not a store: the caller may resize or move the shape it received, and asking
    again with the same parameters must give the documented shape again (an object of its own)."""
    try:
        s1 = get()
        with contracts.quiet():
            V1 = np.array(s1.vertices, float, copy=True)
            if hasattr(s1, "volume"):
                s1.volume = 2.5 * float(s1.volume)
            else:
                s1.area = 2.5 * float(s1.area)
            try:
                s1.centroid = np.asarray(s1.centroid, float) + np.array([1.0, -2.0, 0.5]) * (0 if not hasattr(s1, "volume") else 1) \
                    + np.array([1.0, -2.0, 0.0])
            except Exception:
                pass
        s2 = get()
        with contracts.quiet():
            V2 = np.asarray(s2.vertices, float)
            moved = float(np.abs(np.asarray(s1.vertices, float) - V1).max())
    except Exception as e:
        rec.note(f"{fam}: regeneration history not completed ({type(e).__name__})")
        return
    if moved == 0:
        rec.note(f"{fam}: the mutation of the first result had no effect (history not judged)")
        return
    same = V2.shape == V1.shape and bool(np.all(np.abs(V2 - V1) <= 1e-12 * max(1.0, float(np.abs(V1).max()))))
    rec.check("regenerated-after-caller-changed-earlier-result", same and s2 is not s1 and not np.shares_memory(s1.vertices, s2.vertices),
              f"{fam}.get_shape/second-call-returns-the-callers-modified-shape",
              lambda: dict(info, first_call=V1[:3], second_call=V2[:3], same_object=s2 is s1))


def min_separation(P):
    d = np.linalg.norm(P[:, None, :] - P[None, :, :], axis=-1)
    d[np.diag_indices(len(P))] = np.inf
    return float(d.min())


def setup(rec, tier):
    import coxeter.families as cf

    return {"cf": cf}


def check_truncation(rec, fam, F, a, c, b, corner=None, call=None, form=None):
    planes = np.asarray(F.get_planes(), float)
    types = np.asarray(F.get_plane_types())
    dists = np.array([a, b, c])[types]
    info = {"family": fam, "a": a, "b": b, "c": c}
    if form:
        info["call_form"] = form
    exact = enumerate_vertices(planes, dists)
    sep = min_separation(exact) if len(exact) > 1 else 0.0
    import random as _random
    rs0, ps0 = np.random.get_state(), _random.getstate()
    try:
        shape = F.get_shape(a, c) if call is None else call()
    except ValueError as e:
        if sep > 1e-4:
            rec.violation("truncation:inside-halfspaces", f"{fam}.get_shape/raises-ValueError-although-vertices-well-separated",
                          dict(info, min_separation=sep, exc=repr(e)[:200]))
        else:
            rec.note("ValueError where exact vertices are not well separated (allowed)")
        return
    except Exception as e:
        rec.violation("truncation:inside-halfspaces", f"{fam}.get_shape/raises-{type(e).__name__}-not-ValueError", dict(info, exc=repr(e)[:200]))
        return
    with contracts.quiet():
        V = np.asarray(shape.vertices, float)
        vol = float(shape.volume)
    rs1, ps1 = np.random.get_state(), _random.getstate()
    drew = not (rs0[0] == rs1[0] and np.array_equal(rs0[1], rs1[1]) and rs0[2:] == rs1[2:]) or ps0 != ps1
    rec.note("get_shape drew from a global random generator" if drew else "get_shape left the global random generators untouched")
    if drew and sep > 1e-4:
        # the solid is a function of (a, c) alone.  A call that consumed global random numbers is repeated under other states of
        # those generators (this costs nothing while the library does not draw): every repeat must give the same solid
        rec.cls("repeated-under-other-global-RNG-states")
        bad = None
        for k_ in range(150):
            np.random.seed(7919 * k_ + 13)
            _random.seed(7919 * k_ + 13)
            try:
                with contracts.quiet():
                    sk = F.get_shape(a, c) if call is None else call()
                    nk, vk = len(sk.vertices), float(sk.volume)
            except Exception as e:
                bad = (k_, repr(e)[:200])
                break
            if nk != len(V) or abs(vk - vol) > 1e-9 * abs(vol):
                bad = (k_, {"vertices": nk, "volume": vk})
                break
        np.random.set_state(rs1)
        _random.setstate(ps1)
        rec.check("truncation:volume", bad is None, f"{fam}.get_shape/result-depends-on-the-global-random-state",
                  lambda: dict(info, first={"vertices": len(V), "volume": vol}, differing_repeat=bad))
    rec.check("truncation:inside-halfspaces", bool(np.all(V @ planes.T <= dists[None, :] + 1e-9)), f"{fam}.get_shape/vertex-outside-a-stated-halfspace",
              lambda: dict(info, vertices=V))
    h = geom.hull_facets(V, band=1e-7)
    unit = planes / np.linalg.norm(planes, axis=1)[:, None]
    off = dists / np.linalg.norm(planes, axis=1)
    ok = True
    for n, o in zip(h.normals, h.offsets):
        m = np.nonzero((np.abs(unit @ n - 1) < 1e-7) & (np.abs(off - o) < 1e-6))[0]
        if len(m) == 0:
            ok = False
            break
    rec.check("truncation:facets-on-stated-planes", ok, f"{fam}.get_shape/facet-not-on-a-stated-plane", lambda: dict(info, vertices=V))
    if sep > 1e-4:
        he = geom.hull_facets(exact, band=1e-7)
        ve, _, _ = geom.solid_exact(he.tris())
        rec.close("truncation:volume", vol, ve, 1e-7 * ve, f"{fam}.get_shape/volume-differs-from-halfspace-intersection", lambda: info)
        rec.check("truncation:volume", len(V) == len(exact), f"{fam}.get_shape/vertex-count-differs-from-halfspace-intersection",
                  lambda: dict(info, got=len(V), want=len(exact)))
    else:
        rec.note("volume not compared: exact vertices not well separated")
    if corner is not None:
        vef = (len(V), len(h.edges), len(h.facets))
        el = np.array([np.linalg.norm(V[i] - V[j]) for i, j in h.edges])
        equal = np.ptp(el) <= 1e-6 * el.max()
        rec.check("truncation:corner-solid", vef == corner and bool(equal), f"{fam}.get_shape/corner-is-not-the-documented-solid",
                  lambda: dict(info, vef=vef, want=corner, edge_spread=float(np.ptp(el))))


def run_case(i, rng, rec, tier, state):
    cf = state["cf"]
    kind, fam, p1, p2 = plan(tier)[i]
    F = getattr(cf, fam)
    rec.cls(kind)
    if kind == "trunc-nearmerge":
        (a0, a1), (c0, c1), b = DOMAIN[fam]
        planes = np.asarray(F.get_planes(), float)
        types = np.asarray(F.get_plane_types())

        def sep_at(a, c):
            ex = enumerate_vertices(planes, np.array([a, b, c])[types])
            return min_separation(ex) if len(ex) > 1 else 0.0

        found = None
        for _ in range(6):
            p = np.array([rng.uniform(a0, a1), rng.uniform(c0, c1)])
            q = np.array([rng.uniform(a0, a1), rng.uniform(c0, c1)])
            ts = np.linspace(0, 1, 41)
            ss = np.array([sep_at(*(p + t * (q - p))) for t in ts])
            target = float(10 ** rng.uniform(np.log10(2e-4), np.log10(8e-4)))
            f = lambda t: sep_at(*(p + t * (q - p)))  # noqa: E731
            for j in range(1, len(ts) - 1):
                if not (ss[j] <= ss[j - 1] and ss[j] <= ss[j + 1] and ss[j] < 0.05):
                    continue
                lo, hi = ts[j - 1], ts[j + 1]
                for _ in range(60):              # ternary search for the bottom of the V (a merge line crosses the segment there)
                    m1, m2 = lo + (hi - lo) / 3, hi - (hi - lo) / 3
                    if f(m1) < f(m2):
                        hi = m2
                    else:
                        lo = m1
                tmin = (lo + hi) / 2
                if f(tmin) > 1e-4:
                    continue                     # a dip, not a merge
                lo, hi = tmin, ts[j + 1] if rng.random() < 0.5 else ts[j - 1]
                if f(hi) <= target:
                    continue
                for _ in range(50):              # walk away from the merge line until the separation reaches the target
                    mid = (lo + hi) / 2
                    if f(mid) < target:
                        lo = mid
                    else:
                        hi = mid
                cand = p + hi * (q - p)
                sc = sep_at(*cand)
                if 1.5e-4 < sc < 9e-4:
                    found = (float(cand[0]), float(cand[1]), sc)
                    break
            if found:
                break
        if not found:
            rec.note("no near-merge parameter found on the sampled segments")
            return
        rec.cls("trunc:near-merge-line")
        check_truncation(rec, fam, F, found[0], found[1], b, None)
        rec.nontriv(fam, found[0], found[1])
        return
    if kind in ("trunc", "trunc-random"):
        (a0, a1), (c0, c1), b = DOMAIN[fam]
        if kind == "trunc":
            a, c = a0 + p1 * (a1 - a0), c0 + p2 * (c1 - c0)
            if p1 == 1.0:
                a = a1
            if p2 == 1.0:
                c = c1
            corner = CORNERS[fam].get((int(p1), int(p2))) if p1 in (0.0, 1.0) and p2 in (0.0, 1.0) else None
        else:
            a, c = float(rng.uniform(a0, a1)), float(rng.uniform(c0, c1))
            corner = None
        check_truncation(rec, fam, F, float(a), float(c), b, corner)
        if fam != "Family523" or i % 4 == 0:
            form = i % 3
            regenerated(rec, fam, (lambda: F.get_shape(float(a), float(c))) if form == 0 else
                        (lambda: F.get_shape(np.float64(a), np.float64(c))) if form == 1 else (lambda: F.get_shape(a=float(a), c=float(c))),
                        {"family": fam, "a": a, "c": c, "call_form": ["positional float", "numpy float64", "keywords"][form]})
        if corner is None:
            rec.nontriv(fam, a, c)
        if i % 97 == 0:
            rec.sample({"family": fam, "a": a, "c": c})
        return
    if kind == "trunc-int":
        (a0, a1), (c0, c1), b = DOMAIN[fam]
        ai, ci = int(p1), int(p2)
        corner = CORNERS[fam].get((int(ai == a1) if ai in (a0, a1) else -1, int(ci == c1) if ci in (c0, c1) else -1))
        for form, call in (("python ints", lambda: F.get_shape(ai, ci)), ("numpy int64", lambda: F.get_shape(np.int64(ai), np.int64(ci))),
                           ("int keywords", lambda: F.get_shape(a=ai, c=ci)), ("int a, float c", lambda: F.get_shape(ai, float(ci))),
                           ("float a, int32 c", lambda: F.get_shape(float(ai), np.int32(ci)))):
            rec.cls("call-form:" + form)
            check_truncation(rec, fam, F, float(ai), float(ci), b, corner, call=call, form=form)
        rec.nontriv(fam, "int", ai, ci)
        return
    if kind == "ood":
        (a0, a1), (c0, c1), b = DOMAIN[fam]
        am, cm = (a0 + a1) / 2, (c0 + c1) / 2
        cases = [(a0 - 1e-9, cm), (a1 + 1e-9, cm), (am, c0 - 1e-9), (am, c1 + 1e-9), (a0 - 1, cm), (a1 + 1, cm), (am, c0 - 1), (am, c1 + 1),
                 (float("nan"), cm), (am, float("nan"))]
        a, c = cases[p1]
        # in every spelling of the call (positional, keywords, mixed; the documentation itself uses keywords)
        for form, call in (("positional", lambda: F.get_shape(a, c)), ("keywords", lambda: F.get_shape(a=a, c=c)),
                           ("keywords-swapped-order", lambda: F.get_shape(c=c, a=a)), ("mixed", lambda: F.get_shape(a, c=c))):
            try:
                call()
                rec.violation("out-of-domain-rejected", f"{fam}.get_shape/accepts-out-of-domain-parameter" + ("" if form == "positional" else ":" + form),
                              {"family": fam, "a": a, "c": c, "call_form": form})
            except ValueError:
                rec.ok("out-of-domain-rejected")
            except Exception as e:
                rec.violation("out-of-domain-rejected", f"{fam}.get_shape/out-of-domain-raises-{type(e).__name__}", {"family": fam, "a": a, "c": c, "call_form": form})
        rec.nontriv(fam, "ood", p1)
        return
    if kind == "ttet":
        t = float(p1)
        F3 = cf.Family323Plus
        planes = np.asarray(F.get_planes(), float)
        types = np.asarray(F.get_plane_types())
        c = 3 - 2 * t
        dists = np.array([1.0, 1.0, c])[types]
        info = {"family": fam, "truncation": t}
        try:
            shape = F.get_shape(t)
        except Exception as e:
            exact = enumerate_vertices(planes, dists)
            if isinstance(e, ValueError) and min_separation(exact) <= 1e-4:
                rec.note("ValueError where exact vertices are not well separated (allowed)")
            else:
                rec.violation("truncation:inside-halfspaces", f"{fam}.get_shape/raises-{type(e).__name__}", dict(info, exc=repr(e)[:200]))
            return
        with contracts.quiet():
            V = np.asarray(shape.vertices, float)
            vol = float(shape.volume)
        rec.check("truncation:inside-halfspaces", bool(np.all(V @ planes.T <= dists[None, :] + 1e-9)), f"{fam}.get_shape/vertex-outside-a-stated-halfspace",
                  lambda: dict(info, vertices=V))
        exact = enumerate_vertices(planes, dists)
        if min_separation(exact) > 1e-4:
            he = geom.hull_facets(exact, band=1e-7)
            ve, _, _ = geom.solid_exact(he.tris())
            rec.close("truncation:volume", vol, ve, 1e-7 * ve, f"{fam}.get_shape/volume-differs-from-halfspace-intersection", lambda: info)
            h = geom.hull_facets(V, band=1e-7)
            vef = (len(V), len(h.edges), len(h.facets))
            want = (4, 6, 4) if t == 0 else ((6, 12, 8) if t == 1 else (12, 18, 8))
            rec.check("truncation:corner-solid", vef == want, f"{fam}.get_shape/not-a-truncated-tetrahedron", lambda: dict(info, vef=vef, want=want))
        regenerated(rec, fam, lambda: F.get_shape(t), info)
        rec.nontriv(fam, t)
        return
    if kind == "ood-ttet":
        t = [-1e-9, 1 + 1e-9, -1.0, 2.0, float("nan"), 1e9][p1]
        try:
            F.get_shape(t)
            rec.violation("out-of-domain-rejected", f"{fam}.get_shape/accepts-out-of-domain-parameter", {"family": fam, "truncation": t})
        except ValueError:
            rec.ok("out-of-domain-rejected")
        except Exception as e:
            rec.violation("out-of-domain-rejected", f"{fam}.get_shape/out-of-domain-raises-{type(e).__name__}", {"family": fam, "truncation": t})
        rec.nontriv(fam, "ood", p1)
        return
    n = int(p1)
    info = {"family": fam, "n": n}
    if kind == "n-bad":
        # the statement fixes the outcome only for admissible n; inadmissible n are recorded, not judged
        try:
            F.get_shape(n)
            rec.note(f"{fam}: inadmissible n accepted (not judged)")
        except Exception as e:
            rec.note(f"{fam}: inadmissible n raises {type(e).__name__} (not judged)")
        rec.nontriv(fam, "bad", n)
        return
    try:
        shape = F.get_shape(n)
        mv = np.asarray(F.make_vertices(n), float)
    except Exception as e:
        rec.violation(fam, f"{fam}.get_shape/raises-{type(e).__name__}", dict(info, exc=repr(e)[:200]))
        return
    with contracts.quiet():
        V = np.asarray(shape.vertices, float)
    regenerated(rec, fam, lambda: F.get_shape(n), info)
    if fam == "RegularNGonFamily":
        E = geom.poly3d_exact(V, np.asarray(shape.normal, float))
        r = np.linalg.norm(V[:, :2], axis=1)
        ang = np.unwrap(np.arctan2(V[:, 1], V[:, 0]))
        steps = np.diff(np.append(ang, ang[0] + 2 * np.pi * np.sign(ang[1] - ang[0])))
        ok = (len(V) == n and abs(E["area"] - 1) <= 1e-9 and np.ptp(r) <= 1e-9 * r.max() and np.all(np.abs(np.abs(steps) - 2 * np.pi / n) <= 1e-9)
              and abs(mv[0, 1]) <= 1e-12 and mv[0, 0] > 0 and abs(V[0, 1]) <= 1e-12 and V[0, 0] > 0 and np.all(V[:, 2] == 0)
              and np.linalg.norm(E["centroid"]) <= 1e-9)
        rec.check("ngon", bool(ok), "RegularNGonFamily.get_shape/not-the-unit-area-regular-ngon-with-first-vertex-on-+x",
                  lambda: dict(info, area=E["area"], first=V[0], radii_spread=float(np.ptp(r))))
        rec.nontriv(fam, n)
        return
    mon = {"UniformPrismFamily": "prism", "UniformAntiprismFamily": "antiprism", "UniformPyramidFamily": "pyramid", "UniformDipyramidFamily": "dipyramid"}[fam]
    want_n = {"prism": 2 * n, "antiprism": 2 * n, "pyramid": n + 1, "dipyramid": n + 2}[mon]
    h = geom.hull_facets(V, band=1e-8)
    vol, cen, _ = geom.solid_exact(h.tris())
    el = np.array([np.linalg.norm(V[i] - V[j]) for i, j in h.edges])
    first = mv[0] if mon != "antiprism" else mv[n]       # antiprism: the top polygon starts on +x (bottom is rotated by pi/n)
    ok = (len(V) == want_n and len(h.on_hull) == want_n and abs(vol - 1) <= 1e-9 and np.linalg.norm(cen) <= 1e-9
          and np.ptp(el) <= 1e-8 * el.max() and abs(first[1]) <= 1e-12 and first[0] > 0)
    rec.check(mon, bool(ok), f"{fam}.get_shape/not-unit-volume-centred-equilateral",
              lambda: dict(info, nverts=len(V), volume=vol, centroid=cen, edge_spread=float(np.ptp(el) / el.max()), first=first))
    rec.nontriv(fam, n)
    if n in (3, 7, 200):
        rec.sample(dict(info, nverts=len(V), volume=vol, edge_spread=float(np.ptp(el) / el.max())))

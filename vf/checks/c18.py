"""C18 -- Every tabulated family entry is the solid its name says.

Finite configuration space enumerated exhaustively under the monitors: all 145 family
entries + all 145 repository entries, through ``names``, ``iter``, ``get_shape`` and
``DOI_SHAPE_REPOSITORIES[...]``.  Oracle: reference table written here (textbook V/E/F of the
5+13+13 Platonic, Archimedean and Catalan solids, expected entry counts), unit volume from
O-solid, equal edge lengths and regular faces from O-hull / O-planar, in-sphere existence
from the O-hull plane distances, congruence of repository entries with the family entry
they cite (sorted pairwise-distance spectrum + volume)."""

import warnings

import numpy as np

from .. import bootstrap, contracts, geom

PROPERTY = "C18"
RULE = ("Every entry of PlatonicFamily(5), ArchimedeanFamily(13), CatalanFamily(13), JohnsonFamily(92), PrismAntiprismFamily(16), "
        "PyramidDipyramidFamily(6) and every entry of DOI 10.1126/science.1220869 (145); unknown names / DOIs; iteration order.  "
        "Exhaustive.  Non-trivial = every entry; distinct = (family, name).")
ASSUMPTIONS = ["textbook V/E/F table written in the harness from the standard literature",
               "congruence = equal sorted pairwise-distance spectra (1e-8 relative) and equal volume"]
ANCHORS = ["coxeter.families.tabulated_shape_family:TabulatedGSDShapeFamily.get_shape",
           "coxeter.families.tabulated_shape_family:TabulatedGSDShapeFamily.__iter__",
           "coxeter.families.doi_data_repositories:_doi_shape_collection_factory", "coxeter.shape_getters:from_gsd_type_shapes"]
REQUIRED_MONITORS = ["builds-ConvexPolyhedron", "textbook-VEF", "unit-volume", "equal-edges-regular-faces", "catalan-insphere",
                     "iteration=names=get_shape", "repository-matches-cited-family", "unknown-key-KeyError", "entry-counts",
                     "iteration-passes-independent", "regenerated-after-caller-changed-earlier-result"]
EXHAUSTIVE = True
VEF = {
    "Tetrahedron": (4, 6, 4), "Cube": (8, 12, 6), "Octahedron": (6, 12, 8), "Dodecahedron": (20, 30, 12), "Icosahedron": (12, 30, 20),
    "Cuboctahedron": (12, 24, 14), "Icosidodecahedron": (30, 60, 32), "Truncated Tetrahedron": (12, 18, 8),
    "Truncated Octahedron": (24, 36, 14), "Truncated Cube": (24, 36, 14), "Truncated Icosahedron": (60, 90, 32),
    "Truncated Dodecahedron": (60, 90, 32), "Rhombicuboctahedron": (24, 48, 26), "Rhombicosidodecahedron": (60, 120, 62),
    "Truncated Cuboctahedron": (48, 72, 26), "Truncated Icosidodecahedron": (120, 180, 62), "Snub Cuboctahedron": (24, 60, 38),
    "Snub Icosidodecahedron": (60, 150, 92),
    "Rhombic Dodecahedron": (14, 24, 12), "Rhombic Triacontahedron": (32, 60, 30), "Triakis Tetrahedron": (8, 18, 12),
    "Tetrakis Hexahedron": (14, 36, 24), "Triakis Octahedron": (14, 36, 24), "Pentakis Dodecahedron": (32, 90, 60),
    "Triakis Icosahedron": (32, 90, 60), "Deltoidal Icositetrahedron": (26, 48, 24), "Deltoidal Hexecontahedron": (62, 120, 60),
    "Disdyakis Dodecahedron": (26, 72, 48), "Disdyakis Triacontahedron": (62, 180, 120), "Pentagonal Icositetrahedron": (38, 60, 24),
    "Pentagonal Hexecontahedron": (92, 150, 60),
}
COUNTS = {"PlatonicFamily": 5, "ArchimedeanFamily": 13, "CatalanFamily": 13, "JohnsonFamily": 92, "PrismAntiprismFamily": 16,
          "PyramidDipyramidFamily": 6}
SCIENCE = "10.1126/science.1220869"
SOURCE_FAMILY = {"platonic.json": "PlatonicFamily", "archimedean.json": "ArchimedeanFamily", "catalan.json": "CatalanFamily",
                 "johnson.json": "JohnsonFamily", "prism_antiprism.json": "PrismAntiprismFamily", "pyramid_dipyramid.json": "PyramidDipyramidFamily"}
_plan = None


def plan():
    global _plan
    if _plan is None:
        bootstrap.ensure()
        import coxeter.families as cf

        out = []
        with warnings.catch_warnings():
            warnings.simplefilter("ignore")
            for fam in COUNTS:
                out.append(("family", fam, None))
                for name in getattr(cf, fam).names:
                    out.append(("entry", fam, name))
            out.append(("family", "DOI:" + SCIENCE, None))
            for name in cf.DOI_SHAPE_REPOSITORIES[SCIENCE][0].names:
                out.append(("entry", "DOI:" + SCIENCE, name))
            out.append(("unknown", None, None))
            # a name of one family is an unknown name for every other family - before and after its owner has been asked for it
            fams = list(COUNTS) + ["DOI:" + SCIENCE]
            for a in fams:
                for b in fams:
                    if a != b:
                        out.append(("foreign", a, b))
        _plan = out
    return _plan


def ncases(tier):
    return len(plan())


def spectrum(V):
    d = np.linalg.norm(V[:, None, :] - V[None, :, :], axis=-1)
    return np.sort(d[np.triu_indices(len(V), 1)])


def setup(rec, tier):
    import coxeter.families as cf
    import coxeter.shapes as cs

    return {"cf": cf, "cs": cs}


def get_family(cf, fam):
    if fam.startswith("DOI:"):
        return cf.DOI_SHAPE_REPOSITORIES[fam[4:]][0]
    return getattr(cf, fam)


def run_case(i, rng, rec, tier, state):
    cf, cs = state["cf"], state["cs"]
    kind, fam, name = plan()[i]
    with warnings.catch_warnings():
        warnings.simplefilter("ignore")
        if kind == "foreign":
            A, B = get_family(cf, fam), get_family(cf, name)
            own = [n for n in A.names if n not in set(B.names)]
            picks = [own[j] for j in sorted({0, len(own) // 2, len(own) - 1})] if own else []
            rec.cls("foreign-name-history")
            for nm in picks:
                for phase in ("before-owner-asked", "after-owner-asked", "after-owner-asked-again"):
                    try:
                        got = B.get_shape(nm)
                        rec.violation("unknown-key-KeyError", f"get_shape/name-of-another-family-accepted/{phase}",
                                      {"asked": name, "owner": fam, "name": nm, "returned": type(got).__name__})
                    except KeyError:
                        rec.ok("unknown-key-KeyError")
                    except Exception as e:
                        rec.violation("unknown-key-KeyError", f"get_shape/name-of-another-family-raises-{type(e).__name__}",
                                      {"asked": name, "owner": fam, "name": nm})
                    try:
                        A.get_shape(nm)
                    except Exception as e:
                        rec.violation("builds-ConvexPolyhedron", f"{fam}/own-name-raises-{type(e).__name__}", {"name": nm})
            rec.nontriv("foreign", fam, name)
            return
        if kind == "unknown":
            for F in [get_family(cf, f) for f in COUNTS] + [get_family(cf, "DOI:" + SCIENCE)]:
                first, mid = F.names[0], F.names[len(F.names) // 2]
                near = [first + " ", " " + first, mid + "\n", "\t" + mid, mid.replace(" ", "  ") if " " in mid else mid + "  ", mid.replace(" ", "\u00a0") if " " in mid else "\u00a0" + mid,
                        first.lower() if first.lower() != first else first.upper(), first.swapcase(), first + ".", first[:-1], first + first[-1]]
                # a real name with one character of mark-up syntax around it (a name pasted from a template, a path, a format
                # string ...): whatever the lookup does with an unknown name - message, suggestion, logging - must cope with it
                for nm_ in (first, mid):
                    near += [nm_ + "{", nm_ + "}", "{" + nm_, nm_ + "{}", "{" + nm_ + "}", nm_ + "{0}", nm_ + "%s", nm_ + "%", "%(" + nm_ + ")s",
                             nm_ + "\\", nm_ + "\x00", nm_ + "[0]", nm_ + "*", "^" + nm_ + "$", nm_ + "'", nm_ + '"']
                near = [x for x in dict.fromkeys(near) if x not in set(F.names)]
                # a listed name is a listed name in whatever string type the caller holds it (numpy string, a str subclass, a member
                # of a str-valued Enum - all equal to and hashing like the plain string); and something that merely *prints* as a
                # listed name (a path, bytes, an object with a __str__) is not a name
                import enum
                import pathlib

                class _Tagged(str):
                    def __str__(self):
                        return "Tagged<" + str.__str__(self) + ">"

                class _Prints:
                    def __init__(self, t):
                        self.t = t

                    def __str__(self):
                        return self.t

                    __repr__ = __str__

                for nm_ in (first, mid):
                    with contracts.quiet():
                        ref_ = np.asarray(F.get_shape(nm_).vertices, float)
                    member = enum.Enum("Solid", {"ITEM": nm_}, type=str).ITEM
                    for form, obj in (("numpy.str_", np.str_(nm_)), ("str subclass with its own __str__", _Tagged(nm_)), ("member of a str-valued Enum", member)):
                        rec.cls("name-form:" + form)
                        try:
                            got_ = np.asarray(F.get_shape(obj).vertices, float)
                            rec.check("iteration=names=get_shape", got_.shape == ref_.shape and bool(np.all(got_ == ref_)),
                                      "get_shape/listed-name-in-another-string-type-gives-another-shape", {"name": nm_, "form": form})
                        except Exception as e:
                            rec.violation("iteration=names=get_shape", f"get_shape/listed-name-in-another-string-type-raises-{type(e).__name__}", {"name": nm_, "form": form, "exc": repr(e)[:200]})
                    for form, obj in (("pathlib path", pathlib.PurePosixPath(nm_)), ("bytes", nm_.encode()), ("object that prints as the name", _Prints(nm_))):
                        rec.cls("not-a-name:" + form)
                        try:
                            F.get_shape(obj)
                            rec.violation("unknown-key-KeyError", "get_shape/object-that-only-prints-as-a-name-accepted", {"name": nm_, "form": form})
                        except KeyError:
                            rec.ok("unknown-key-KeyError")
                        except Exception as e:
                            rec.violation("unknown-key-KeyError", f"get_shape/unknown-name-raises-{type(e).__name__}", {"name": nm_, "form": form})
                for bad in ["No Such Solid", "cube", ""] + near:
                    try:
                        F.get_shape(bad)
                        rec.violation("unknown-key-KeyError", "get_shape/unknown-name-accepted", {"name": bad})
                    except KeyError:
                        rec.ok("unknown-key-KeyError")
                    except Exception as e:
                        rec.violation("unknown-key-KeyError", f"get_shape/unknown-name-raises-{type(e).__name__}", {"name": bad})
            # asked three times each (a lazy mapping may remember a failed lookup), with lookups of known DOIs in between
            for attempt in range(3):
                for doi in ("10.0000/unknown", "", "science.1220869", "10.1126/science.0000000"):
                    try:
                        got = cf.DOI_SHAPE_REPOSITORIES[doi]
                        rec.violation("unknown-key-KeyError", "DOI_SHAPE_REPOSITORIES/unknown-doi-accepted" + ("" if attempt == 0 else "-when-asked-again"),
                                      {"doi": doi, "attempt": attempt + 1, "returned": repr(got)[:80]})
                    except KeyError:
                        rec.ok("unknown-key-KeyError")
                    except Exception as e:
                        rec.violation("unknown-key-KeyError", f"DOI_SHAPE_REPOSITORIES/unknown-doi-raises-{type(e).__name__}", {"doi": doi, "attempt": attempt + 1})
                len(cf.DOI_SHAPE_REPOSITORIES[SCIENCE])
            # the other two DOIs map to the documented parametric families
            r1 = cf.DOI_SHAPE_REPOSITORIES["10.1103/PhysRevX.4.011024"]
            ok = [type(x).__name__ for x in r1] == ["Family323Plus", "Family423", "Family523"]
            r2 = cf.DOI_SHAPE_REPOSITORIES["10.1021/nn204012y"]
            ok = ok and [type(x).__name__ for x in r2] == ["TruncatedTetrahedronFamily"]
            rec.check("entry-counts", ok, "DOI_SHAPE_REPOSITORIES/wrong-families-for-doi", {"r1": repr(r1), "r2": repr(r2)})
            rec.nontriv("unknown")
            return
        F = get_family(cf, fam)
        if kind == "family":
            names = list(F.names)
            want = COUNTS.get(fam, 145)
            rec.check("entry-counts", len(names) == want and len(set(names)) == len(names), f"{fam}/wrong-number-of-entries",
                      {"family": fam, "got": len(names), "want": want})
            if fam.startswith("DOI:"):
                cites = sum(1 for k in names if F.data[k].get("source") in SOURCE_FAMILY)
                rec.check("entry-counts", cites == 133, f"{fam}/number-of-entries-citing-a-named-family-differs-from-reference",
                          {"family": fam, "got": cites, "want": 133})
            it = list(iter(F))
            ok = [k for k, _ in it] == names
            same = ok
            if ok:
                for k, shp in it:
                    g = F.get_shape(k)
                    if not (type(shp) is type(g) and np.array_equal(np.asarray(shp.vertices), np.asarray(g.vertices))):
                        same = False
                        break
            rec.check("iteration=names=get_shape", bool(ok and same), f"{fam}/iteration-differs-from-names-or-get_shape",
                      {"family": fam, "iter_names": [k for k, _ in it][:10], "names": names[:10]})
            # iteration histories: every iteration over the family is a pass of its own (interleaved, nested, resumed)
            try:
                z = [(k1, k2) for (k1, _), (k2, _) in zip(F, F)]
                it1 = iter(F)
                head = [next(it1)[0] for _ in range(min(2, len(names)))]
                full_between = [k for k, _ in F]
                rest = [k for k, _ in it1]
                again = [k for k, _ in F]
                okh = (z == [(k, k) for k in names] and head + rest == names and full_between == names and again == names)
                rec.check("iteration-passes-independent", bool(okh), f"{fam}/interleaved-iterations-share-state",
                          lambda: {"family": fam, "zip_pairs": z[:4], "n_zip": len(z), "head": head, "n_rest": len(rest),
                                   "n_between": len(full_between), "n_again": len(again), "n_names": len(names)})
            except Exception as e:
                rec.violation("iteration-passes-independent", f"{fam}/interleaved-iteration-raises-{type(e).__name__}",
                              {"family": fam, "exc": repr(e)[:200]})
            rec.nontriv(fam, "family")
            rec.sample({"family": fam, "entries": len(names), "first": names[:3]})
            return
        info = {"family": fam, "name": name}
        try:
            shp = F.get_shape(name)
        except Exception as e:
            rec.violation("builds-ConvexPolyhedron", f"{fam}/entry-does-not-build-{type(e).__name__}", dict(info, exc=repr(e)[:200]))
            return
        spec = F.data[name]
        V = np.asarray(shp.vertices, float)
        # the table is a source of fresh solids: resizing / moving the one received does not change what the name gives next
        try:
            with contracts.quiet():
                first = F.get_shape(name)
                V1 = np.array(first.vertices, float, copy=True)
                first.volume = 3.0 * float(first.volume)
                first.centroid = np.asarray(first.centroid, float) + np.array([0.5, -1.0, 2.0])
                second = F.get_shape(name)
                V2 = np.asarray(second.vertices, float)
            rec.check("regenerated-after-caller-changed-earlier-result",
                      second is not first and V2.shape == V1.shape and bool(np.array_equal(V1, V2)) and not np.shares_memory(first.vertices, second.vertices),
                      f"{fam}/get_shape-returns-the-callers-modified-shape", lambda: dict(info, first_call=V1[:2], second_call=V2[:2]))
        except Exception as e:
            rec.note(f"{fam}: regeneration history not completed ({type(e).__name__})")
        rec.check("builds-ConvexPolyhedron", type(shp) is cs.ConvexPolyhedron and len(V) == len(spec["vertices"]),
                  f"{fam}/entry-is-not-a-ConvexPolyhedron-of-its-vertices", dict(info, type=type(shp).__name__))
        h = geom.hull_facets(V, band=1e-7)
        vol, cen, _ = geom.solid_exact(h.tris())
        vef = (len(V), len(h.edges), len(h.facets))
        cls_fam = fam
        cname = name
        if fam.startswith("DOI:"):
            cname = spec.get("name")
            cls_fam = SOURCE_FAMILY.get(spec.get("source"), None)
            if cls_fam is not None:
                G = getattr(cf, cls_fam)
                if cname in G.names:
                    W = np.asarray(G.get_shape(cname).vertices, float)
                    hw = geom.hull_facets(W, band=1e-7)
                    vw, _, _ = geom.solid_exact(hw.tris())
                    ok = len(W) == len(V) and np.allclose(spectrum(W), spectrum(V), rtol=1e-8, atol=1e-10) and abs(vw - vol) <= 1e-8 * vw
                    rec.check("repository-matches-cited-family", bool(ok), f"{fam}/entry-differs-from-cited-family-entry",
                              dict(info, cited=(cls_fam, cname), nverts=(len(V), len(W)), volumes=(vol, vw)))
                else:
                    rec.violation("repository-matches-cited-family", f"{fam}/cited-name-not-in-cited-family", dict(info, cited=(cls_fam, cname)))
        if cname in VEF and cls_fam in ("PlatonicFamily", "ArchimedeanFamily", "CatalanFamily"):
            rec.check("textbook-VEF", vef == VEF[cname], f"{cls_fam}/{cname}/wrong-vertex-edge-face-counts", dict(info, got=vef, want=VEF[cname]))
            rec.check("unit-volume", abs(vol - 1) <= 1e-6, f"{cls_fam}/{cname}/not-unit-volume", dict(info, volume=vol))
        elif cls_fam in ("PlatonicFamily", "ArchimedeanFamily", "CatalanFamily"):
            rec.violation("textbook-VEF", f"{cls_fam}/entry-name-not-in-reference-table", info)
        if cls_fam in ("PlatonicFamily", "ArchimedeanFamily", "JohnsonFamily"):
            el = np.array([np.linalg.norm(V[a] - V[b]) for a, b in h.edges])
            regular = True
            for f, n in zip(h.facets, h.normals):
                p = V[f]
                e1 = p - np.roll(p, 1, axis=0)
                e2 = np.roll(p, -1, axis=0) - p
                cosang = np.einsum("ij,ij->i", e1, e2) / (np.linalg.norm(e1, axis=1) * np.linalg.norm(e2, axis=1))
                if np.ptp(cosang) > 1e-6 or np.ptp(np.linalg.norm(e2, axis=1)) > 1e-6 * el.max():
                    regular = False
            rec.check("equal-edges-regular-faces", np.ptp(el) <= 1e-6 * el.max() and regular, f"{cls_fam}/{cname}/edges-not-equal-or-faces-not-regular",
                      dict(info, edge_spread=float(np.ptp(el) / el.max()), regular_faces=regular))
        if cls_fam == "CatalanFamily":
            from .c13 import in_fit
            c, r, defect = in_fit(h.normals, h.offsets)
            ok = defect < 1e-6 and r > 0
            try:
                with contracts.quiet():
                    sp = shp.insphere
                ok = ok and abs(float(sp.radius) - r) <= 1e-6 * r
            except Exception:
                ok = False
            rec.check("catalan-insphere", bool(ok), f"CatalanFamily/{cname}/no-insphere", dict(info, defect=defect))
        rec.nontriv(fam, name)
        if i % 37 == 0:
            rec.sample(dict(info, vef=vef, volume=vol))

"""C02 -- General (non-convex) Polyhedron measures are exact.

Monitor: postconditions on the getters of Polyhedron, active only when
``type(self) is Polyhedron`` (the convex subclass has its own C01 monitor).
Oracle: O-solid signed tetrahedra on the harness's own fan triangulation of the given
outward faces, with closed forms by construction as second opinion (voxel solids: cell
counts and box moments mapped through the affine map)."""

import numpy as np

from .. import aging, contracts, gen, geom

PROPERTY = "C02"
RULE = ("G-mesh: voxel solids (U, C, staircase, frames with a through-hole, random face-connected manifolds) under rigid "
        "motion x optional anisotropic scaling, extruded simple polygons with ear-clipped caps, radially perturbed triangulated "
        "hulls, Polyhedron copies of convex solids; offsets up to 10 diameters, and 100 / 1000 / 3000 diameters in one case in five (judged by the accuracy law measured there).  Non-trivial = not star-shaped about its "
        "centroid, or genus 1, or offset ratio >= 1; distinct = SHA-1 of rounded vertices+faces.")
ASSUMPTIONS = ["faces are convex and consistently outward oriented by construction (as the statement requires)",
               "shapes whose smallest face is < 1e-3 of the largest are not generated (polytri's documented limits)"]
ANCHORS = ["coxeter.shapes.polyhedron:Polyhedron.volume", "coxeter.shapes.polyhedron:Polyhedron.get_face_area",
           "coxeter.shapes.polyhedron:Polyhedron.centroid", "coxeter.shapes.polyhedron:Polyhedron._compute_inertia_tensor",
           "coxeter.shapes.polyhedron:Polyhedron._surface_triangulation", "coxeter.shapes.polyhedron:Polyhedron._find_equations",
           "coxeter.extern.polytri.polytri:triangulate"]
REQUIRED_MONITORS = ["Polyhedron.volume", "Polyhedron.surface_area", "Polyhedron.get_face_area", "Polyhedron.centroid",
                     "Polyhedron.inertia_tensor", "oracle-second-opinion:voxel-closed-form"]
REQUIRED_CLASSES = ["kind:voxel", "kind:extrusion", "kind:perturbed", "kind:convexcopy", "genus:1", "not-star-shaped", "history:aged-object", "history:sibling-aged"]


def ncases(tier):
    return 480 if tier == "quick" else 10000


_cache = {}


def facts(s):
    V = np.asarray(s.vertices, float)
    faces = [[int(i) for i in f] for f in s.faces]
    key = (V.tobytes(), str(faces))
    if key not in _cache:
        if len(_cache) > 32:
            _cache.clear()
        tris = geom.faces_to_tris(V, faces)
        vol, cen, I = geom.solid_exact(tris)
        fa = geom.mesh_area(V, faces)
        _cache[key] = {"V": vol, "c": cen, "I": I, "S": float(fa.sum()), "fa": fa, "tris": tris,
                       "L": float(np.linalg.norm(V, axis=1).max()), "d": gen.diameter(V)}
    return _cache[key]


def star_shaped_about(point, tris):
    a, b, c = tris[:, 0] - point, tris[:, 1] - point, tris[:, 2] - point
    det = np.einsum("ij,ij->i", a, np.cross(b, c))
    return bool(np.all(det > 0))


def _wit(s, **kw):
    w = {"vertices": np.asarray(s.vertices), "faces": [[int(i) for i in f] for f in s.faces]}
    w.update(kw)
    return w


def setup(rec, tier):
    import coxeter.shapes as cs

    P = cs.Polyhedron

    def only_base(fn):
        def post(s, a, k, res, tok):
            if type(s) is P:
                fn(s, a, k, res)
        return post

    def shape_tag(s, F):
        return "star-shaped" if star_shaped_about(F["c"], F["tris"]) else "not-star-shaped"

    # Tolerances.  Near the origin (distance/diameter r < 50) they are 1e-9 of each quantity's natural magnitude.  Far away
    # (r = 100 .. 3000) that would allow everything: there the unchanged code follows a clean law - volume within 1e-16 d^3 r^2,
    # areas within 3e-16 d^2 r, centroid within 2e-15 d r^2, tensor within 2e-15 V L^2 r^2 (measured over all mesh kinds) -
    # and the monitors allow 200 times that law, so that an algorithm that loses one more power of r is a violation.
    def tol_vol(F):
        r = F["L"] / F["d"]
        return 1e-9 * F["d"] ** 2 * F["L"] if r < 50 else 2e-14 * F["d"] ** 3 * r ** 2

    def tol_area(F):
        r = F["L"] / F["d"]
        return 1e-9 * F["d"] * F["L"] if r < 50 else 6e-14 * F["d"] ** 2 * r

    def vol(s, a, k, res):
        F = facts(s)
        rec.close("Polyhedron.volume", float(res), F["V"], tol_vol(F), "Polyhedron.volume", lambda: _wit(s))

    def area(s, a, k, res):
        F = facts(s)
        rec.close("Polyhedron.surface_area", float(res), F["S"], tol_area(F), "Polyhedron.surface_area", lambda: _wit(s))

    def fa(s, a, k, res):
        F = facts(s)
        arg = a[0] if a else k.get("faces", None)
        idx = list(range(len(F["fa"]))) if arg is None else ([int(arg)] if isinstance(arg, (int, np.integer)) else [int(x) for x in arg])
        rec.close("Polyhedron.get_face_area", np.atleast_1d(np.asarray(res, float)), F["fa"][idx], tol_area(F),
                  "Polyhedron.get_face_area", lambda: _wit(s, arg=arg))

    def cen(s, a, k, res):
        F = facts(s)
        r = F["L"] / F["d"]
        rec.close("Polyhedron.centroid", np.asarray(res, float), F["c"], max(1e-9 * F["L"], 4e-13 * F["d"] * r ** 2), "Polyhedron.centroid", lambda: _wit(s))

    def it(s, a, k, res):
        F = facts(s)
        r = F["L"] / F["d"]
        rec.close("Polyhedron.inertia_tensor", np.asarray(res, float), F["I"], max(1e-8, 4e-13 * r ** 2) * F["V"] * F["L"] ** 2,
                  "Polyhedron.inertia_tensor/" + shape_tag(s, F), lambda: _wit(s))

    contracts.hook(P, "volume", post=only_base(vol))
    contracts.hook(P, "surface_area", post=only_base(area))
    contracts.hook(P, "get_face_area", post=only_base(fa))
    contracts.hook(P, "centroid", post=only_base(cen))
    contracts.hook(P, "inertia_tensor", post=only_base(it))
    return {"cs": cs}


def run_case(i, rng, rec, tier, state):
    cs = state["cs"]
    c = gen.mesh_case(rng, far_frac=0.2)
    V, faces = c["V"], c["faces"]
    iform, fx = gen.index_form(rng, faces, len(V))
    rec.cls("face-index-type:" + iform)
    try:
        s = cs.Polyhedron(V.copy(), fx, faces_are_convex=True)
    except Exception as e:
        rec.violation("Polyhedron.__init__", f"Polyhedron.__init__/raises-{type(e).__name__}", {"V": V, "faces": faces, "exc": repr(e)})
        return
    F = facts(s)
    star = star_shaped_about(F["c"], F["tris"])
    rec.cls("kind:" + c["kind"])
    rec.cls("genus:%d" % c["genus"])
    rec.cls("star-shaped" if star else "not-star-shaped")
    rec.cls("offset:" + str(c["offset_ratio"]))
    nf = len(faces)
    for m in ["volume", "surface_area", "centroid", "center", "inertia_tensor"]:
        try:
            getattr(s, m)
        except Exception as e:
            rec.violation("Polyhedron." + m, f"Polyhedron.{m}/raises-{type(e).__name__}", _wit(s, exc=repr(e)[:300], kind=c["kind"]))
    for arg in (None, int(rng.integers(nf)), [int(x) for x in rng.choice(nf, size=min(3, nf), replace=False)]):
        try:
            s.get_face_area(arg)
        except Exception as e:
            rec.violation("Polyhedron.get_face_area", f"Polyhedron.get_face_area/raises-{type(e).__name__}", _wit(s, arg=arg, exc=repr(e)[:300]))
    # second opinion on the oracle itself: closed form for voxel solids through the affine map
    if c["kind"] == "voxel":
        Vq, cq, Iq = gen.voxel_exact(c["cells"])
        A, t = c["A"], c["t"]
        det = abs(np.linalg.det(A))
        vol = float(Vq) * det
        cen = A @ np.array([float(x) for x in cq]) + t
        # second-moment matrix M2 = tr(I)/2 Id - I in the unmapped frame, then mapped
        I0 = np.array([[float(x) for x in r] for r in Iq])
        M0 = np.trace(I0) / 2 * np.eye(3) - I0
        c0 = np.array([float(x) for x in cq])
        Mc = M0 - float(Vq) * np.outer(c0, c0)            # about the centroid, unmapped
        Mc2 = det * A @ Mc @ A.T                           # about the centroid, mapped
        M2 = Mc2 + vol * np.outer(cen, cen)
        I2 = np.trace(M2) * np.eye(3) - M2
        ok = (abs(vol - F["V"]) <= 1e-10 * F["d"] ** 2 * F["L"] and np.all(np.abs(cen - F["c"]) <= 1e-10 * F["L"])
              and np.all(np.abs(I2 - F["I"]) <= 1e-9 * F["V"] * F["L"] ** 2))
        rec.check("oracle-second-opinion:voxel-closed-form", ok, "oracle/tetrahedra-vs-voxel-closed-form-disagree",
                  {"cells": c["cells"], "A": A, "t": t})
    # one case in four goes on with the same object: resized, moved, reoriented (diagonalize_inertia), to_hoomd through the
    # public API and read again; the postconditions judge against the current vertices and faces
    if i % 4 == 3:
        hist, _sib = aging.age_or_sibling(s, rng, allow=("size", "move", "rigid"), reads=False)
        rec.cls("history:aged-object" if _sib is None else "history:sibling-aged")
        if np.all(np.isfinite(np.asarray(s.vertices, float))):
            for m in ["volume", "surface_area", "centroid", "inertia_tensor"]:
                try:
                    getattr(s, m)
                except Exception as e:
                    rec.violation("Polyhedron." + m, f"Polyhedron.{m}/raises-after-history-{type(e).__name__}", _wit(s, exc=repr(e)[:300], history=hist))
            try:
                s.get_face_area()
            except Exception as e:
                rec.violation("Polyhedron.get_face_area", f"Polyhedron.get_face_area/raises-after-history-{type(e).__name__}", _wit(s, exc=repr(e)[:300], history=hist))
        else:
            rec.violation("Polyhedron.vertices", "Polyhedron/non-finite-vertices-after-history", {"V": V, "history": hist})
    if (not star) or c["genus"] >= 1 or c["offset_ratio"] >= 1:
        rec.nontriv(V, faces)
    if i < 5:
        rec.sample({"kind": c["kind"], "genus": c["genus"], "star_shaped_about_centroid": star, "nverts": len(V), "nfaces": nf,
                    "offset_ratio": c["offset_ratio"], "cells": c.get("cells")})

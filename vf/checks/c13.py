"""C13 -- Bounding, bounded, circum- and in-spheres/circles satisfy their definitions.

Monitor: postconditions (and exception observers) on every ball property of every class,
evaluated directly against the *definition* of the ball on the object's public geometry:
containment + minimality against the harness's own smallest-enclosing-ball (brute-force
support sets / own Welzl), exact centroid from O-solid / O-planar, plane and edge
distances from O-hull / O-planar; existence of circum-/in-balls decided by the harness's
own tangency / equidistance fit with a margin (defect < 1e-9: exists, > 1e-2: does not,
in between: not judged)."""

import math

import numpy as np

from .. import aging, contracts, gen, geom

PROPERTY = "C13"
RULE = ("Convex polyhedra/polygons from G-convex/G-poly incl. cyclic (points on a sphere, boxes, regular prisms, rectangles, "
        "regular polygons, tabulated solids) and non-cyclic, tangential (triangles, kites, tetrahedra, Catalan/Platonic, polar "
        "duals) and non-tangential (rectangles, boxes, random hulls) shapes, non-convex polygons/polyhedra for the vertex-based "
        "balls, all curved shapes; random rigid placement; both polygon orientations; each minimal-ball query under 3 global RNG "
        "states.  Non-trivial = off-origin or rotated shape, or a shape where the queried ball does not exist; distinct = SHA-1 "
        "of rounded vertices/parameters.")
ASSUMPTIONS = ["miniball's epsilon=1e-7 sets 1e-6 relative tolerance on minimal balls",
               "existence is judged only with margin (fit defect < 1e-9 or > 1e-2)",
               "members raising NotImplementedError/ImportError are 'not provided by this class' and are not judged, except where "
               "the statement names the ball for that class (curved shapes)"]
ANCHORS = ["coxeter.shapes.polygon:Polygon.minimal_bounding_circle", "coxeter.shapes.polygon:Polygon.circumcircle",
           "coxeter.shapes.polygon:Polygon.incircle", "coxeter.shapes.convex_polygon:ConvexPolygon.minimal_centered_bounding_circle",
           "coxeter.shapes.convex_polygon:ConvexPolygon.maximal_centered_bounded_circle",
           "coxeter.shapes.polyhedron:Polyhedron.minimal_bounding_sphere", "coxeter.shapes.polyhedron:Polyhedron.circumsphere",
           "coxeter.shapes.polyhedron:Polyhedron.insphere",
           "coxeter.shapes.convex_polyhedron:ConvexPolyhedron.minimal_centered_bounding_sphere",
           "coxeter.shapes.convex_polyhedron:ConvexPolyhedron.maximal_centered_bounded_sphere",
           "coxeter.shapes.ellipse:Ellipse.maximal_bounded_circle", "coxeter.shapes.ellipsoid:Ellipsoid.minimal_bounding_sphere"]
REQUIRED_MONITORS = ["minimal_bounding_sphere", "minimal_bounding_circle", "minimal_centered_bounding_sphere",
                     "minimal_centered_bounding_circle", "maximal_centered_bounded_sphere", "maximal_centered_bounded_circle",
                     "circumsphere", "circumcircle", "insphere", "incircle", "curved-balls", "radius-getters"]
REQUIRED_CLASSES = ["exists:circumsphere", "none:circumsphere", "exists:insphere", "none:insphere", "exists:circumcircle",
                    "none:circumcircle", "exists:incircle", "none:incircle", "polygon:cw", "polygon:nonconvex", "polyhedron:nonconvex",
                    "history:aged-object", "history:sibling-aged", "curved:extreme-units"]
TOL = 1e-6


def ncases(tier):
    return 1500 if tier == "quick" else 30000


# ---------------------------------------------------------------------------
# own existence fits
# ---------------------------------------------------------------------------

def circum_fit(V, normal=None):
    """Best equidistant point (in the polygon's plane if ``normal`` given) and its defect."""
    V = np.asarray(V, float)
    p = V[1:] - V[0]
    A, b = p, 0.5 * (p * p).sum(1)
    if normal is not None:
        A = np.vstack((A, np.asarray(normal, float)[None]))
        b = np.append(b, 0.0)
    x = np.linalg.lstsq(A, b, rcond=None)[0]
    c = x + V[0]
    d = np.linalg.norm(V - c, axis=1)
    r = d.mean()
    return c, r, float(np.abs(d - r).max() / r)


def in_fit(planes_n, planes_o, extra_n=None, extra_o=None):
    """Point at equal inward distance from all planes n.x = o; returns (c, r, defect)."""
    N = np.asarray(planes_n, float)
    o = np.asarray(planes_o, float)
    A = np.hstack((N, np.ones((len(N), 1))))
    b = o.copy()
    if extra_n is not None:
        A = np.vstack((A, np.append(extra_n, 0.0)))
        b = np.append(b, extra_o)
    x = np.linalg.lstsq(A, b, rcond=None)[0]
    c, r = x[:3], x[3]
    dist = o - N @ c          # inward distances of c from each plane
    rr = dist.mean()
    if rr <= 0:
        return c, rr, float("inf")
    return c, rr, float(np.abs(dist - rr).max() / rr)


def exists(defect):
    if defect < 1e-9:
        return True
    if defect > 1e-2:
        return False
    return None


def exists_inball(defect, r, size):
    """In-balls of flat shapes are tiny compared with the shape: 'clearly none' also requires the tangency defect to be a
    clear fraction of the *size* (1e-2), not only of the radius - a needle-thin solid whose best ball misses tangency by 2 % of
    its own radius but by 1e-4 of the solid's size is within the margin of any existence test that scales with the solid
    (found by the thorough tier, seed 1: one 5-vertex solid of 30 000), hence not judged."""
    ex = exists(defect)
    if ex is False and not (np.isfinite(defect) and defect * r > 1e-2 * size) and np.isfinite(defect):
        return None
    return ex


def poly_edge_planes(V, normal):
    """Outward edge normals (in-plane) and offsets of a polygon, orientation-aware."""
    V = np.asarray(V, float)
    E = geom.poly3d_exact(V, normal)
    sgn = 1.0 if E["signed_area"] > 0 else -1.0
    n = np.asarray(normal, float) / np.linalg.norm(normal)
    e = np.roll(V, -1, axis=0) - V
    out = np.cross(e, n) * sgn
    out /= np.linalg.norm(out, axis=1)[:, None]
    return out, (out * V).sum(1), n, float(n @ V.mean(0)), E


def ball_of(res):
    return np.asarray(res.centroid, float), float(res.radius)


# ---------------------------------------------------------------------------
def setup(rec, tier):
    import coxeter.shapes as cs

    def wit(s, **kw):
        w = {"class": type(s).__name__}
        for a in ("vertices", "normal", "radius", "a", "b", "c", "centroid"):
            try:
                with contracts.quiet():
                    w[a] = getattr(s, a)
            except Exception:
                pass
        if hasattr(s, "faces") and not isinstance(s, (cs.Polygon,)):
            try:
                w["faces"] = [[int(i) for i in f] for f in s.faces]
            except Exception:
                pass
        w.update(kw)
        return w

    def verts(s):
        return np.asarray(s.vertices, float)

    # ---- minimal bounding ball ------------------------------------------
    def minball(mon):
        def post(s, a, k, res, tok):
            V = verts(s)
            c, r = ball_of(res)
            P = np.unique(V, axis=0)
            key = P.tobytes()
            if key not in _ball_cache:
                if len(_ball_cache) > 8:
                    _ball_cache.clear()
                _ball_cache[key] = geom.min_enclosing_ball(P) if len(P) <= 11 else geom.min_enclosing_ball_fast(P)
            o = _ball_cache[key]
            d = np.linalg.norm(V - c, axis=1)
            ok_in = bool(np.all(d <= r * (1 + TOL) + 1e-12))
            ok_min = r <= o[1] * (1 + TOL)
            mech = f"{type(s).__name__}.{mon}"
            rec.check(mon, ok_in, mech + "/vertex-outside", lambda: wit(s, ball_center=c, ball_radius=r, worst=float(d.max()), oracle_radius=o[1]))
            rec.check(mon, ok_min, mech + "/not-smallest", lambda: wit(s, ball_center=c, ball_radius=r, oracle_radius=o[1]))
        return post

    def minball_raised(mon):
        def raised(s, a, k, exc, tok):
            if isinstance(exc, (NotImplementedError, ImportError)):
                rec.note(f"{type(s).__name__}.{mon}: not provided")
                return
            rec.violation(mon, f"{type(s).__name__}.{mon}/raises-{type(exc).__name__}", lambda: wit(s, exc=repr(exc)[:200]))
        return raised

    # ---- centred balls ---------------------------------------------------
    def centroid_of(s):
        V = verts(s)
        if isinstance(s, cs.Polygon):
            return geom.poly3d_exact(V, np.asarray(s.normal, float))["centroid"]
        h = geom.hull_facets(V)
        return geom.solid_exact(h.tris())[1]

    def centred_bounding(mon):
        def post(s, a, k, res, tok):
            V = verts(s)
            c, r = ball_of(res)
            cen = centroid_of(s)
            L = float(np.linalg.norm(V, axis=1).max())
            want = float(np.linalg.norm(V - cen, axis=1).max())
            ok = bool(np.all(np.abs(c - cen) <= 1e-8 * L)) and abs(r - want) <= 1e-8 * L
            rec.check(mon, ok, f"{type(s).__name__}.{mon}/not-centroid-or-wrong-radius",
                      lambda: wit(s, ball_center=c, ball_radius=r, centroid=cen, want_radius=want))
        return post

    def centred_bounded(mon):
        def post(s, a, k, res, tok):
            V = verts(s)
            c, r = ball_of(res)
            cen = centroid_of(s)
            L = float(np.linalg.norm(V, axis=1).max())
            if isinstance(s, cs.Polygon):
                N, o, n, on, E = poly_edge_planes(V, np.asarray(s.normal, float))
                want = float((o - N @ cen).min())
            else:
                h = geom.hull_facets(V)
                want = float((h.offsets - h.normals @ cen).min())
            ok = bool(np.all(np.abs(c - cen) <= 1e-8 * L)) and abs(r - want) <= 1e-8 * L
            rec.check(mon, ok, f"{type(s).__name__}.{mon}/not-centroid-or-not-touching-nearest",
                      lambda: wit(s, ball_center=c, ball_radius=r, centroid=cen, want_radius=want))
        return post

    # ---- circum / in balls -----------------------------------------------
    def circum(mon):
        def facts(s):
            V = verts(s)
            nrm = np.asarray(s.normal, float) if isinstance(s, cs.Polygon) else None
            c, r, defect = circum_fit(V, nrm)
            return V, exists(defect), defect

        def post(s, a, k, res, tok):
            V, ex, defect = facts(s)
            c, r = ball_of(res)
            d = np.linalg.norm(V - c, axis=1)
            own = float(np.abs(d - r).max() / max(abs(r), 1e-300))
            mech = f"{type(s).__name__}.{mon}"
            if ex is None:
                rec.note(mon + ": existence within margin, not judged")
            elif ex:
                rec.cls("exists:" + mon)
                rec.check(mon, own <= TOL and r > 0, mech + "/misses-a-vertex", lambda: wit(s, ball_center=c, ball_radius=r, defect=own))
            else:
                rec.cls("none:" + mon)
                rec.violation(mon, mech + "/returned-where-none-exists/n=%s" % ("4" if len(V) == 4 else ">4" if len(V) > 4 else "3"),
                              lambda: wit(s, ball_center=c, ball_radius=r, defect=own, oracle_defect=defect))

        def raised(s, a, k, exc, tok):
            V, ex, defect = facts(s)
            mech = f"{type(s).__name__}.{mon}"
            if isinstance(exc, (NotImplementedError, ImportError)):
                rec.note(mech + ": not provided")
                return
            if ex is None:
                rec.note(mon + ": existence within margin, not judged")
            elif ex:
                rec.cls("exists:" + mon)
                rec.violation(mon, mech + f"/raises-{type(exc).__name__}-where-one-exists", lambda: wit(s, exc=repr(exc)[:200]))
            else:
                rec.cls("none:" + mon)
                rec.check(mon, isinstance(exc, RuntimeError), mech + f"/raises-{type(exc).__name__}-instead-of-RuntimeError",
                          lambda: wit(s, exc=repr(exc)[:200]))
        return post, raised

    def inball(mon):
        def facts(s):
            V = verts(s)
            if isinstance(s, cs.Polygon):
                N, o, n, on, E = poly_edge_planes(V, np.asarray(s.normal, float))
                c, r, defect = in_fit(N, o, n, on)
                convex = bool(np.all((N @ V.T - o[:, None]) <= 1e-9 * gen.diameter(V)))
                return V, N, o, (exists_inball(defect, r, gen.diameter(V)) if convex else None), defect, (n, on), E
            faces = [[int(i) for i in f] for f in s.faces]
            tr = [V[f] for f in faces]
            N = []
            for p in tr:
                nn = np.zeros(3)
                for t in range(1, len(p) - 1):
                    nn += np.cross(p[t] - p[0], p[t + 1] - p[0])
                N.append(nn / np.linalg.norm(nn))
            N = np.array(N)
            o = np.array([N[i] @ tr[i][0] for i in range(len(tr))])
            c, r, defect = in_fit(N, o)
            convex = bool(np.all((N @ V.T - o[:, None]) <= 1e-9 * gen.diameter(V)))
            return V, N, o, (exists_inball(defect, r, gen.diameter(V)) if convex else None), defect, None, None

        def post(s, a, k, res, tok):
            V, N, o, ex, defect, plane, E = facts(s)
            c, r = ball_of(res)
            dist = o - N @ c
            own = float(np.abs(dist - r).max() / max(abs(r), 1e-300))
            inplane = True if plane is None else abs(plane[0] @ c - plane[1]) <= 1e-8 * (1 + np.abs(V).max())
            mech = f"{type(s).__name__}.{mon}"
            if ex is None:
                rec.note(mon + ": existence within margin or non-convex shape, not judged")
            elif ex:
                rec.cls("exists:" + mon)
                rec.check(mon, own <= TOL and r > 0 and inplane, mech + "/not-tangent-from-inside",
                          lambda: wit(s, ball_center=c, ball_radius=r, defect=own))
            else:
                rec.cls("none:" + mon)
                rec.violation(mon, mech + "/returned-where-none-exists/n=%s" % ("4" if len(V) == 4 else ">4"),
                              lambda: wit(s, ball_center=c, ball_radius=r, defect=own, oracle_defect=defect))

        def raised(s, a, k, exc, tok):
            V, N, o, ex, defect, plane, E = facts(s)
            mech = f"{type(s).__name__}.{mon}"
            if isinstance(exc, (NotImplementedError, ImportError)):
                rec.note(mech + ": not provided")
                return
            tag = ""
            if E is not None and E["signed_area"] < 0:
                tag = "/clockwise"
            if ex is None:
                rec.note(mon + ": existence within margin or non-convex shape, not judged")
            elif ex:
                rec.cls("exists:" + mon)
                rec.violation(mon, mech + f"/raises-{type(exc).__name__}-where-one-exists" + tag, lambda: wit(s, exc=repr(exc)[:200]))
            else:
                rec.cls("none:" + mon)
                rec.check(mon, isinstance(exc, RuntimeError), mech + f"/raises-{type(exc).__name__}-instead-of-RuntimeError" + tag,
                          lambda: wit(s, exc=repr(exc)[:200]))
        return post, raised

    # ---- install ----------------------------------------------------------
    contracts.hook(cs.Polygon, "minimal_bounding_circle", post=minball("minimal_bounding_circle"), raised=minball_raised("minimal_bounding_circle"))
    contracts.hook(cs.Polyhedron, "minimal_bounding_sphere", post=minball("minimal_bounding_sphere"), raised=minball_raised("minimal_bounding_sphere"))
    contracts.hook(cs.ConvexPolygon, "minimal_centered_bounding_circle", post=centred_bounding("minimal_centered_bounding_circle"))
    contracts.hook(cs.ConvexPolyhedron, "minimal_centered_bounding_sphere", post=centred_bounding("minimal_centered_bounding_sphere"))
    contracts.hook(cs.ConvexPolygon, "maximal_centered_bounded_circle", post=centred_bounded("maximal_centered_bounded_circle"))
    contracts.hook(cs.ConvexPolyhedron, "maximal_centered_bounded_sphere", post=centred_bounded("maximal_centered_bounded_sphere"),
                   raised=minball_raised("maximal_centered_bounded_sphere"))
    p, r = circum("circumcircle")
    contracts.hook(cs.Polygon, "circumcircle", post=p, raised=r)
    p, r = circum("circumsphere")
    contracts.hook(cs.Polyhedron, "circumsphere", post=p, raised=r)
    p, r = inball("incircle")
    contracts.hook(cs.Polygon, "incircle", post=p, raised=r)
    p, r = inball("insphere")
    contracts.hook(cs.Polyhedron, "insphere", post=p, raised=r)

    # curved shapes: largest / smallest semi-axis about the centre
    def curved(cls, member, pick, axes):
        def post(s, a, k, res, tok):
            c, r = ball_of(res)
            ax = [float(x) for x in axes(s)]
            want = max(ax) if pick == "max" else min(ax)
            ok = r == want and bool(np.all(c == np.asarray(s.centroid, float)))
            rec.check("curved-balls", ok, f"{cls.__name__}.{member}/not-{pick}-semi-axis-about-centre", lambda: wit(s, ball_center=c, ball_radius=r))

        def raised(s, a, k, exc, tok):
            rec.violation("curved-balls", f"{cls.__name__}.{member}/raises-{type(exc).__name__}", lambda: wit(s, exc=repr(exc)[:200]))
        contracts.hook(cls, member, post=post, raised=raised)

    for cls, axes, suffix in ((cs.Circle, lambda s: (s.radius,), "circle"), (cs.Ellipse, lambda s: (s.a, s.b), "circle"),
                              (cs.Sphere, lambda s: (s.radius,), "sphere"), (cs.Ellipsoid, lambda s: (s.a, s.b, s.c), "sphere")):
        curved(cls, "minimal_bounding_" + suffix, "max", axes)
        curved(cls, "minimal_centered_bounding_" + suffix, "max", axes)
        curved(cls, "maximal_bounded_" + suffix, "min", axes)
        curved(cls, "maximal_centered_bounded_" + suffix, "min", axes)
    return {"cs": cs}


# ---------------------------------------------------------------------------
POLY_BALLS = ["minimal_bounding_circle", "circumcircle", "incircle"]
CPOLY_BALLS = POLY_BALLS + ["minimal_centered_bounding_circle", "maximal_centered_bounded_circle"]
PH_BALLS = ["minimal_bounding_sphere", "circumsphere", "insphere"]
CPH_BALLS = PH_BALLS + ["minimal_centered_bounding_sphere", "maximal_centered_bounded_sphere"]


def _query(rec, s, members, rng, info):
    """Read each ball and its *_radius getter; the hooks judge.  Also relate radius getter to ball."""
    import random

    for m in members:
        # miniball's pivoting is randomised (global RNG): its failures on degenerate inputs show for ~1-2% of states
        reps = (8 if _TIER["tier"] == "quick" else 24) if m.startswith("minimal_bounding") else 1
        for rep in range(reps):
            if reps > 1:
                sd = int(rng.integers(2 ** 31))
                random.seed(sd)
                np.random.seed(sd)
            ball = exc = None
            try:
                ball = getattr(s, m)
            except Exception as e:  # judged by the hooks
                exc = e
            try:
                if reps > 1:
                    random.seed(sd)
                    np.random.seed(sd)
                with contracts.quiet():
                    rr = getattr(s, m + "_radius")
                if ball is not None:
                    rec.check("radius-getters", abs(float(rr) - float(ball.radius)) <= 1e-9 * abs(float(ball.radius)) + 1e-300,
                              f"{type(s).__name__}.{m}_radius/differs-from-ball", lambda: dict(info, member=m, radius=rr, ball_radius=ball.radius))
                else:
                    rec.check("radius-getters", False, f"{type(s).__name__}.{m}_radius/returns-while-ball-raises",
                              lambda: dict(info, member=m, radius=rr, exc=repr(exc)[:200]))
            except Exception as e2:
                if ball is not None:
                    rec.check("radius-getters", False, f"{type(s).__name__}.{m}_radius/raises-while-ball-returns",
                              lambda: dict(info, member=m, exc=repr(e2)[:200]))
                else:
                    rec.ok("radius-getters")


def _with_straight_corners(rng, xy):
    """The same region with one or two extra vertices *on* its edges (a straight corner, which Polygon accepts): every ball
    of the region is what it was; only the listing has corners that do not turn."""
    xy = np.asarray(xy, float)
    out = []
    picks = set(int(x) for x in rng.choice(len(xy), size=min(len(xy), int(rng.integers(1, 3))), replace=False))
    for i in range(len(xy)):
        out.append(xy[i])
        if i in picks:
            t = float(rng.choice([0.5, 0.25, 0.75]))
            out.append(xy[i] + t * (xy[(i + 1) % len(xy)] - xy[i]))
    return np.array(out)


def _polygon_shape(rng):
    xy, kind = _polygon_shape0(rng)
    if kind in ("regular", "rectangle", "kite", "triangle", "tangential", "cyclic-irregular") and rng.random() < 0.25:
        return _with_straight_corners(rng, xy), "simple-" + kind + "-with-straight-corners"
    return xy, kind


def _polygon_shape0(rng):
    """2-D vertex list (CCW) with known circle character."""
    u = rng.random()
    if u < 0.14:
        n = int(rng.integers(3, 13))
        th = np.linspace(0, 2 * np.pi, n, endpoint=False) + rng.uniform(0, 6)
        return np.column_stack((np.cos(th), np.sin(th))), "regular"
    if u < 0.26:
        w, h = rng.uniform(0.5, 3), rng.uniform(0.5, 3)
        if abs(w - h) < 0.2:
            h += 0.5
        return np.array([[-w, -h], [w, -h], [w, h], [-w, h]]), "rectangle"       # cyclic, not tangential
    if u < 0.32:
        a, b, c = rng.uniform(0.5, 1.5), rng.uniform(0.4, 1.2), rng.uniform(1.5, 3)
        return np.array([[0, -b], [a, 0], [0, c], [-a, 0]]), "kite"               # tangential, (generally) not cyclic
    if u < 0.38:
        # isosceles trapezoid along the axes, on the 1/8 grid: mirror-symmetric, every coordinate's values balanced about
        # the mean (x: +-w1, +-w2; y: two at +h, two at -h) - and yet not point-symmetric: its smallest circle is not at the mean
        w1, w2, h = (int(rng.integers(2, 25)) / 8 for _ in range(3))
        if w1 == w2:
            w2 += 0.5
        return np.array([[-w1, -h], [w1, -h], [w2, h], [-w2, h]]), "trapezoid-aligned"
    if u < 0.48:
        return gen.convex_polygon_2d(rng, 3, regular=False), "triangle"
    if u < 0.58:
        n = int(rng.integers(4, 12))
        th = np.sort(rng.uniform(0, 2 * np.pi, size=n))
        if np.diff(np.append(th, th[0] + 2 * np.pi)).max() > 2.5 or np.diff(th).min() < 0.15:
            th = np.linspace(0, 2 * np.pi, n, endpoint=False) + rng.uniform(-0.2, 0.2, size=n)
        return np.column_stack((np.cos(th), np.sin(th))), "cyclic-irregular"
    if u < 0.68:
        # tangential polygon: polar construction = tangent lines of the unit circle at random angles
        n = int(rng.integers(4, 10))
        th = np.linspace(0, 2 * np.pi, n, endpoint=False) + rng.uniform(-0.25, 0.25, size=n) * (2 * np.pi / n)
        pts = []
        for i in range(n):
            t1, t2 = th[i], th[(i + 1) % n]
            A = np.array([[math.cos(t1), math.sin(t1)], [math.cos(t2), math.sin(t2)]])
            pts.append(np.linalg.solve(A, np.ones(2)))
        return np.array(pts), "tangential"
    if u < 0.85:
        return gen.convex_polygon_2d(rng, regular=False), "convex-generic"
    xy, k = gen.simple_polygon_2d(rng)
    return xy, "simple-" + k


def _polyhedron_shape(rng):
    u = rng.random()
    if u < 0.12:
        n = int(rng.integers(5, 20))
        P = gen._sphere_points(rng, n, 0.45)
        return P, "on-sphere"
    if u < 0.22:
        d = rng.uniform(0.5, 2.5, size=3)
        if np.ptp(d) < 0.3:
            d[0] += 0.7
        import itertools
        return np.array(list(itertools.product([-1, 1.0], repeat=3))) * d, "box"
    if u < 0.27:
        return gen.convex_polygon_2d(rng, 3, regular=False) @ np.array([[1, 0, 0.3], [0, 1, -0.2]]) * 1.0, "tetra-base"
    if u < 0.32:
        # solids along the axes, on the 1/8 grid, whose coordinate values are balanced about the mean in every axis without
        # the solid being point-symmetric: two different rectangles in parallel planes, or two crossed segments (a disphenoid)
        a, b, c, d, h = (int(rng.integers(2, 25)) / 8 for _ in range(5))
        if rng.random() < 0.5:
            if (a, b) == (c, d):
                c += 0.5
            P = np.array([[sx * a, sy * b, h] for sx in (-1, 1) for sy in (-1, 1)] + [[sx * c, sy * d, -h] for sx in (-1, 1) for sy in (-1, 1)])
        else:
            if a == c:
                c += 0.5
            P = np.array([[a, h, 0], [-a, h, 0], [0, -h, c], [0, -h, -c]])
        return P[:, list(rng.permutation(3))], "aligned-balanced"
    if u < 0.44:
        # polar dual of points on the unit sphere: tangential (insphere radius 1)
        n = int(rng.integers(5, 12))
        Q = gen._sphere_points(rng, n, 0.7)
        if len(Q) >= 4 and np.all(geom.hull_facets(Q).signed_dist(np.zeros((1, 3))) < -0.15):
            from scipy.spatial import HalfspaceIntersection
            hs = np.hstack((Q, -np.ones((len(Q), 1))))
            try:
                P = HalfspaceIntersection(hs, np.zeros(3)).intersections
                P = np.unique(np.round(P, 12), axis=0)
                from scipy.spatial.distance import pdist
                if len(P) >= 4 and np.abs(P).max() < 6 and pdist(P).min() > 0.05:
                    return P, "polar-dual"
            except Exception:
                pass
        return gen._sphere_points(rng, 8, 0.6), "on-sphere"
    if u < 0.7:
        tab = gen.tabulated_vertices()
        key = sorted(tab)[int(rng.integers(len(tab)))]
        return tab[key].copy(), "tabulated:" + key[0]
    c = gen.convex_case(rng, tabulated_frac=0.0)
    P = c["P"]
    if len(P) > 30:
        P = P[:30]
        P = P[gen.strict_hull_vertices(P)]
    return P, "generic:" + c["kind"]


_TIER = {"tier": "quick"}
_ball_cache = {}


_SIBLINGS = []


def _maybe_age(i, s, rng, rec, info):
    """One case in three judges an object with a past (reads that fill whatever the object memoises, then moves, resizes,
    a semi-axis assigned, diagonalize_inertia / to_hoomd) - the ball monitors read the current public geometry."""
    if (i // 20) % 3 == 1:
        info["history"], sib = aging.age_or_sibling(s, rng)
        _SIBLINGS.append(sib)          # stays alive while s is judged
        del _SIBLINGS[:-4]
        rec.cls("history:aged-object" if sib is None else "history:sibling-aged")


def run_case(i, rng, rec, tier, state):
    cs = state["cs"]
    _TIER["tier"] = tier
    mode = i % 5
    if mode in (0, 1):
        xy, kind = _polygon_shape(rng)
        xy = xy * (float(np.exp(rng.uniform(-1.5, 1.5))) if rng.random() < 0.8 else float(10 ** rng.uniform(-3, 3)))
        ccw = bool(rng.random() < 0.6)
        if not ccw:
            xy = xy[::-1]
        xy = np.roll(xy, -int(rng.integers(len(xy))), axis=0)
        V = np.column_stack((xy, np.zeros(len(xy))))
        if kind == "trapezoid-aligned":
            if rng.random() < 0.8:
                V[:, :2] += rng.integers(-12, 13, size=2) / 4.0     # stays along the axes and on the grid
        elif rng.random() < 0.5:
            V = V @ gen.random_rotation(rng).T + rng.uniform(-3, 3, size=3)
            plane_n = None
        else:
            V[:, :2] += rng.uniform(-3, 3, size=2)
        convex = not kind.startswith("simple-") or gen.is_convex_ccw(xy if ccw else xy[::-1])
        use_convex = convex and rng.random() < 0.5
        # explicit normal so that the orientation about the normal is what we chose (cw possible for Polygon)
        e = np.cross(V[1] - V[0], V[2] - V[0])
        nrm = None
        if rng.random() < 0.6:
            a_, _, _ = geom.poly2d_moments(xy)
            # normal about which the listed order is (counter-)clockwise as chosen by ``flip``
            pn = sum(np.cross(V[t] - V[0], V[t + 1] - V[0]) for t in range(1, len(V) - 1))      # area vector (no corner singled out)
            E0 = geom.poly3d_exact(V, pn)
            nrm = pn / np.linalg.norm(pn) * (1 if E0["signed_area"] > 0 else -1)
            if rng.random() < 0.4:
                nrm = -nrm          # listed clockwise about the stated normal
        try:
            s = (cs.ConvexPolygon if use_convex else cs.Polygon)(V.copy(), normal=nrm)
        except Exception as ex:
            rec.note("construct-failed (judged by C15): " + type(ex).__name__)
            return
        with contracts.quiet():
            E = geom.poly3d_exact(np.asarray(s.vertices), np.asarray(s.normal))
        rec.cls("polygon:" + ("ccw" if E["signed_area"] > 0 else "cw"))
        rec.cls("polygon:" + ("convex" if convex else "nonconvex"))
        rec.cls("polykind:" + kind)
        info = {"class": type(s).__name__, "vertices": V, "normal_arg": nrm, "kind": kind}
        _maybe_age(i, s, rng, rec, info)
        _query(rec, s, CPOLY_BALLS if use_convex else POLY_BALLS, rng, info)
        rec.nontriv(V, nrm)
        if i < 8:
            rec.sample({"class": type(s).__name__, "kind": kind, "n": len(V), "ccw_about_normal": bool(E["signed_area"] > 0)})
        return
    if mode in (2, 3):
        if mode == 3 and rng.random() < 0.35:
            c = gen.mesh_case(rng, kinds=("voxel", "perturbed", "extrusion"))
            V, faces = c["V"], c["faces"]
            s = cs.Polyhedron(V.copy(), [list(f) for f in faces], faces_are_convex=True)
            rec.cls("polyhedron:nonconvex")
            info = {"class": "Polyhedron", "kind": c["kind"], "vertices": V, "faces": faces}
            _maybe_age(i, s, rng, rec, info)
            _query(rec, s, PH_BALLS, rng, info)
            rec.nontriv(V, "mesh")
            return
        P, kind = _polyhedron_shape(rng)
        if kind == "tetra-base":
            P = np.vstack((P, P.mean(0) + [0.1, 0.2, rng.uniform(0.5, 2)]))
            kind = "tetrahedron"
        P = P * (float(np.exp(rng.uniform(-1.0, 1.0))) if rng.random() < 0.8 else float(10 ** rng.uniform(-3, 3)))
        if kind == "aligned-balanced":
            # stays along the axes: moved by a multiple of 1/4 only (a rotation would hide what the class is about)
            ratio = 0.0
            P = P + (rng.integers(-12, 13, size=3) / 4.0 if rng.random() < 0.6 else 0.0)
        else:
            P, R, t, ratio = gen.place(rng, P, offset_choices=(0.0, 0.5, 3.0))
        P = P[rng.permutation(len(P))]
        try:
            if rng.random() < 0.7:
                s = cs.ConvexPolyhedron(P.copy())
                members = CPH_BALLS
            else:
                h = geom.hull_facets(P)
                s = cs.Polyhedron(P.copy(), [list(f) for f in h.facets], faces_are_convex=True)
                members = PH_BALLS
        except Exception as ex:
            rec.note("construct-failed (judged by C15): " + type(ex).__name__)
            return
        rec.cls("polyhedron:convex")
        rec.cls("phkind:" + kind.split(":")[0])
        info = {"class": type(s).__name__, "kind": kind, "vertices": P}
        _maybe_age(i, s, rng, rec, info)
        _query(rec, s, members, rng, info)
        rec.nontriv(P[np.lexsort(P.T)], type(s).__name__)
        if i < 8:
            rec.sample({"class": type(s).__name__, "kind": kind, "n": len(P), "offset_ratio": ratio})
        return
    which = ["Circle", "Ellipse", "Sphere", "Ellipsoid"][(i // 5) % 4]
    k = {"Circle": 1, "Ellipse": 2, "Sphere": 1, "Ellipsoid": 3}[which]
    ax, _ = gen.axes_case(rng, k)
    cen, _ = gen.center_case(rng, max(ax), dims=2 if k <= 2 and which in ("Circle", "Ellipse") else 3)
    u = gen.unit_factor(rng)
    if u != 1.0:
        ax, cen = [a * u for a in ax], cen * u
        rec.cls("curved:extreme-units")
    s = getattr(cs, which)(*ax, cen)
    suffix = "circle" if which in ("Circle", "Ellipse") else "sphere"
    rec.cls("curved:" + which)
    info = {"class": which, "axes": ax, "center": cen}
    _maybe_age(i, s, rng, rec, info)
    _query(rec, s, ["minimal_bounding_" + suffix, "minimal_centered_bounding_" + suffix, "maximal_bounded_" + suffix,
                    "maximal_centered_bounded_" + suffix], rng, info)
    if np.any(cen != 0) or len(set(ax)) > 1:
        rec.nontriv(which, ax, cen)

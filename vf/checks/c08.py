"""C08 -- Size setters hit their target by pure similarity; bad targets are refused.

Monitor: before/after wrapper around every property setter found by reflection on all ten
classes (new setters are picked up automatically).  Oracle: read-back equals the target;
least-squares fit new = s*old + t on the public geometry (vertices, or axes/centre) has zero
residual with s = (v/old)^(1/d), d the dimension of the property; rounding radius scaled by
the same s; dimensionless observables unchanged and dimensional scalars scaled by s^k;
zero / negative / NaN targets must raise ValueError and leave the geometry bit-for-bit."""

import math

import numpy as np

from .. import bases, bootstrap, contracts, fingerprint as fpr

PROPERTY = "C08"
RULE = ("Every settable property (by reflection) of every class x base shapes in general position x positive targets at length "
        "ratios {1e-3,0.05,0.37,1,1+2e-6,1-7e-6,2.9,40,1e3} and targets 0, -0.0, -1, nan (+inf on the vertex-based classes); thorough adds random chains of setters.  Properties "
        "whose getter raises on the base shape (no circumsphere, not implemented) are 'not provided', not judged.  Non-trivial = "
        "every (class, base, property, target) combination with ratio != 1 or a bad target; distinct = that tuple.")
ASSUMPTIONS = ["single-parameter setters (semi-axis a/b/c, rounding radius) are judged on read-back, on leaving every other parameter "
               "untouched and on refusing bad targets (negative only for the rounding radius), not on similarity",
               "the enumeration over settable properties is exhaustive (reflection)"]
ANCHORS = ["coxeter.shapes.polygon:Polygon._rescale", "coxeter.shapes.polyhedron:Polyhedron._rescale",
           "coxeter.shapes.convex_polyhedron:ConvexPolyhedron._rescale", "coxeter.shapes.convex_spheropolygon:ConvexSpheropolygon._rescale",
           "coxeter.shapes.convex_spheropolyhedron:ConvexSpheropolyhedron._rescale", "coxeter.shapes.ellipsoid:Ellipsoid._rescale",
           "coxeter.shapes.base_classes:Shape3D.minimal_bounding_sphere_radius", "coxeter.shapes.base_classes:Shape2D.minimal_bounding_circle_radius"]
REQUIRED_MONITORS = ["read-back", "similarity", "dimensionless-preserved", "scaling-law", "bad-target-refused", "translation"]
EXHAUSTIVE = False
RATIOS = (1e-3, 0.05, 0.37, 1.0, 1.0 + 2e-6, 1.0 - 7e-6, 2.9, 40.0, 1e3)     # incl. targets a few ppm from the current value
BAD = (0.0, -0.0, -1.0, float("nan"), float("inf"))
SINGLE = {("Ellipse", "a"), ("Ellipse", "b"), ("Ellipsoid", "a"), ("Ellipsoid", "b"), ("Ellipsoid", "c"),
          ("ConvexSpheropolygon", "radius"), ("ConvexSpheropolyhedron", "radius")}
CLASSES = ["ConvexPolyhedron", "Polyhedron", "ConvexSpheropolyhedron", "Polygon", "ConvexPolygon", "ConvexSpheropolygon",
           "Circle", "Ellipse", "Sphere", "Ellipsoid"]
# the same bases in very small and very large units (nanometres written in metres, ...): an absolute threshold hidden in a
# setter, a getter or a memo key only shows there
UNITS = (("nano", 1e-8), ("mega", 1e5))
_plan = None


def all_bases(cs):
    B = {k: list(v) for k, v in bases.base_shapes(cs).items()}
    for cname in CLASSES:
        label0, ctor0 = B[cname][0]
        for ulabel, u in UNITS:
            B[cname].append((f"{label0}-{ulabel}", (lambda ctor0=ctor0, u=u: fpr.scaled_copy(ctor0(), u))))
    # the scalar parameters handed over as zero-dimensional arrays: a refused assignment must still change nothing
    for cname, ctor in bases.zero_d_shapes(cs).items():
        if cname in B:
            B[cname].append((bases.ZERO_D, ctor))
    return B


def prop_dim(name):
    if name == "volume":
        return 3
    if name in ("surface_area", "area"):
        return 2
    return 1


def plan():
    global _plan
    if _plan is None:
        bootstrap.ensure()
        import coxeter.shapes as cs

        B = all_bases(cs)
        out = []
        for cname in CLASSES:
            cls = getattr(cs, cname)
            _, setters, _ = fpr.members(cls)
            for bi, (blabel, _) in enumerate(B[cname]):
                for sname in setters:
                    if sname in ("centroid", "center"):
                        for variant in ("array", "list", "own-vertex-view", "own-centroid"):
                            out.append((cname, bi, sname, "move", variant))
                        continue
                    for r in RATIOS:
                        out.append((cname, bi, sname, "ratio", r))
                    for b in BAD:
                        # +inf: only where the statement's last clause decides it (a vertex-based shape would be left with
                        # non-finite vertices); an infinite radius / semi-axis of a curved shape is outside the stated targets
                        if math.isinf(b) and (not hasattr(cls, "vertices") or sname == "radius"):
                            continue
                        out.append((cname, bi, sname, "bad", b))
        _plan = out
    return _plan


def ncases(tier):
    n = len(plan())
    return n if tier == "quick" else n + 3000


def geom_state(s):
    with contracts.quiet():
        if hasattr(s, "vertices"):
            st = {"pts": np.array(s.vertices, float), "radius": float(s.radius) if hasattr(s, "radius") else None}
            if hasattr(s, "normal"):
                st["normal"] = np.array(s.normal, float)
            return st
        names = [n for n in ("radius", "a", "b", "c") if hasattr(type(s), n)]
        return {"pts": np.array(s.centroid, float)[None, :], "params": {n: float(getattr(s, n)) for n in names}, "radius": None}


def radial_profile(s):
    """distance_to_surface on fixed angles (measured from the shape's own centre, so invariant under moves and homogeneous of
    degree 1 under resizing); None where the class does not provide it or the shape is not in the xy-plane."""
    if not hasattr(type(s), "distance_to_surface"):
        return None
    with contracts.quiet():
        try:
            if hasattr(s, "normal") and abs(abs(float(np.asarray(s.normal, float)[2])) - 1) > 1e-12:
                return None
            return np.asarray(s.distance_to_surface(fpr.ANGLES.copy()), float)
        except (NotImplementedError, ImportError):
            return None
        except Exception as e:
            return ("raises", type(e).__name__)


def same_state(a, b):
    if not (np.array_equal(a["pts"], b["pts"]) and a.get("radius") == b.get("radius")):
        return False
    return a.get("params") == b.get("params")


def finite_state(st):
    ok = bool(np.all(np.isfinite(st["pts"])))
    if st.get("params"):
        ok = ok and all(math.isfinite(v) and v > 0 for v in st["params"].values())
    if st.get("radius") is not None:
        ok = ok and math.isfinite(st["radius"]) and st["radius"] >= 0
    return ok


def setup(rec, tier):
    import coxeter.shapes as cs

    state = {"cs": cs, "B": all_bases(cs), "current": None}

    def pre(name):
        def f(s, a, k):
            if state["current"] is None or state.get("target") is not s:
                return None
            with contracts.quiet():
                try:
                    old = getattr(s, name)
                except Exception as e:
                    old = e
            tgt = a[0]
            return {"old": old, "geom": geom_state(s), "fp": fpr.observe(s, light=True), "L": fpr.length_scale(s), "profile": radial_profile(s),
                    "target": np.array(tgt, dtype=float, copy=True) if name in ("centroid", "center") else tgt}
        return f

    def post(name):
        def f(s, a, k, res, tok):
            if tok is None:
                return
            cname = type(s).__name__
            v = tok["target"]          # the value as it was when the call was made (the argument may alias the shape)
            info = dict(state["current"] or {}, target=v)
            g0, g1 = tok["geom"], geom_state(s)
            mech0 = f"{cname}.{name}.setter"
            bad = not (np.all(np.isfinite(np.asarray(v, float))) and (np.ndim(v) > 0 or float(v) > 0))
            if name in ("centroid", "center"):
                with contracts.quiet():
                    back = np.asarray(getattr(s, name), float)
                L = tok["L"][1] + float(np.abs(np.asarray(v, float)).max())
                rec.close("read-back", back, np.asarray(v, float), 1e-9 * L, mech0 + "/read-back", lambda: info)
                d = g1["pts"] - g0["pts"]
                ok = d.shape == g0["pts"].shape and np.all(np.abs(d - d[0]) <= 1e-9 * L) and g1.get("radius") == g0.get("radius") \
                    and g1.get("params") == g0.get("params")
                rec.check("translation", bool(ok), mech0 + "/not-a-pure-translation", lambda: dict(info, before=g0["pts"], after=g1["pts"]))
                p0, p1 = tok["profile"], radial_profile(s)
                if isinstance(p0, np.ndarray):
                    okp = isinstance(p1, np.ndarray) and p1.shape == p0.shape and bool(np.all(np.abs(p1 - p0) <= 1e-8 * np.abs(p0).max()))
                    rec.check("translation", okp, mech0 + "/radial-profile-changed-by-a-move", lambda: dict(info, before=p0, after=p1))
                # everything else must have moved with the shape: compare with a freshly built shape at the new place
                try:
                    fr = fpr.fresh(s)
                    fa, fb = fpr.observe(s, light=True), fpr.observe(fr, light=True)
                    skip = {"planar_moments_inertia"}
                    diffs = fpr.compare({k: x for k, x in fa.items() if not k.startswith("minimal_bounding")},
                                        {k: x for k, x in fb.items() if not k.startswith("minimal_bounding")}, L, 1e-9, fpr.is3d(s), skip=skip)
                    rec.check("translation", not diffs, mech0 + "/observables-did-not-move-with-the-shape:" + ",".join(sorted({d[0] for d in diffs})[:3]),
                              lambda: dict(info, diffs=diffs[:5]))
                except Exception as e:
                    rec.violation("translation", mech0 + f"/shape-unusable-after-move-{type(e).__name__}", lambda: dict(info, exc=repr(e)[:200]))
                return
            if bad:
                legit_zero = (cname, name) in SINGLE and name == "radius" and float(v) == 0.0
                if legit_zero:
                    rec.check("read-back", float(getattr(s, name)) == 0.0, mech0 + "/read-back", lambda: info)
                    return
                what = "nonfinite" if not finite_state(g1) else ("collapsed-or-mirrored" if not same_state(g0, g1) else "unchanged")
                kind = "nan" if isinstance(v, float) and math.isnan(v) else ("infinite" if math.isinf(float(v)) else ("zero" if float(v) == 0 else "negative"))
                rec.violation("bad-target-refused", f"{mech0}/accepts-{kind}-target", lambda: dict(info, geometry_after=what))
                return
            if isinstance(tok["old"], Exception):
                rec.note("setter ran although getter raises on the base shape; not judged")
                return
            old = float(tok["old"])
            with contracts.quiet():
                try:
                    back = float(getattr(s, name))
                except Exception as e:
                    rec.violation("read-back", mech0 + f"/getter-raises-after-set-{type(e).__name__}", lambda: dict(info, exc=repr(e)[:200]))
                    return
            rec.close("read-back", back, float(v), 1e-9 * abs(float(v)), mech0 + "/read-back", lambda: dict(info, old=old))
            if (cname, name) in SINGLE:
                # every other parameter untouched
                if g0.get("params"):
                    others_ok = all(g1["params"][n] == g0["params"][n] for n in g0["params"] if n != name) and np.array_equal(g0["pts"], g1["pts"])
                else:
                    others_ok = np.array_equal(g0["pts"], g1["pts"])
                rec.check("similarity", bool(others_ok), mech0 + "/changes-other-parameters", lambda: dict(info, before=g0, after=g1))
                return
            d = prop_dim(name)
            s_exp = (float(v) / old) ** (1.0 / d)
            # least-squares similarity fit on the public geometry
            if g0.get("params"):
                ratios = np.array([g1["params"][n] / g0["params"][n] for n in g0["params"]])
                fit_ok = np.all(np.abs(ratios - s_exp) <= 1e-9 * s_exp) and np.array_equal(g0["pts"], g1["pts"])
                rec.check("similarity", bool(fit_ok), mech0 + "/not-a-uniform-scaling", lambda: dict(info, ratios=ratios, expected=s_exp))
            else:
                p0, p1 = g0["pts"], g1["pts"]
                c0, c1 = p0.mean(0), p1.mean(0)
                den = float(((p0 - c0) ** 2).sum())
                s_fit = float(((p0 - c0) * (p1 - c1)).sum()) / den
                resid = float(np.abs((p1 - c1) - s_fit * (p0 - c0)).max())
                size1 = float(np.abs(p1 - c1).max())
                ok = resid <= 1e-9 * size1 and abs(s_fit - s_exp) <= 1e-9 * s_exp and s_fit > 0
                if g0.get("radius") is not None:
                    ok = ok and abs(g1["radius"] - s_exp * g0["radius"]) <= 1e-9 * (s_exp * g0["radius"] + 1e-300)
                if g0.get("normal") is not None:
                    ok = ok and np.allclose(g0["normal"], g1["normal"], atol=1e-12)
                rec.check("similarity", bool(ok), mech0 + "/not-a-uniform-scaling",
                          lambda: dict(info, s_fit=s_fit, s_expected=s_exp, residual=resid, radius=(g0.get("radius"), g1.get("radius"))))
            # the radial profile about the shape's own centre scales with the shape
            p0, p1 = tok["profile"], radial_profile(s)
            if isinstance(p0, np.ndarray):
                okp = isinstance(p1, np.ndarray) and p1.shape == p0.shape and bool(np.all(np.abs(p1 - s_exp * p0) <= 1e-8 * s_exp * np.abs(p0).max()))
                rec.check("scaling-law", okp, mech0 + "/other-observable-not-scaled:distance_to_surface", lambda: dict(info, before=p0, after=p1, s=s_exp))
            # dimensionless observables unchanged; dimensional scalars scale by s^k
            f0, f1 = tok["fp"], fpr.observe(s, light=True)
            three = fpr.is3d(s)
            dimless = [n for n in f0 if fpr._dim_of(n, three) in (0, None) and n not in ("gsd_shape_spec", "normals", "equations", "normal")
                       and not (isinstance(f0[n], tuple) and f0[n][0] in ("ball", "raises"))
                       and not (fpr._dim_of(n, three) is None and isinstance(f0[n], np.ndarray))]
            diffs = fpr.compare({n: f0[n] for n in dimless}, {n: f1[n] for n in dimless if n in f1}, 1.0, 1e-8, three)
            rec.check("dimensionless-preserved", not diffs, mech0 + "/dimensionless-observable-changed:" + (diffs[0][0] if diffs else ""),
                      lambda: dict(info, diffs=diffs[:5]))
            for n, a0 in f0.items():
                kdim = fpr._dim_of(n, three)
                if n in ("polar_moment_inertia",):     # referred to the origin, not homogeneous under scaling about the centre
                    continue
                if kdim and isinstance(a0, np.ndarray) and a0.ndim == 0 and n in f1 and isinstance(f1[n], np.ndarray):
                    want = float(a0) * s_exp ** kdim
                    rec.close("scaling-law", float(f1[n]), want, 1e-8 * abs(want), mech0 + "/other-observable-not-scaled:" + n,
                              lambda n=n: dict(info, member=n, before=float(a0), after=float(f1[n]), s=s_exp), name="scaling-law")
        return f

    def raised(name):
        def f(s, a, k, exc, tok):
            if tok is None:
                return
            cname = type(s).__name__
            v = a[0]
            info = dict(state["current"] or {}, target=v, exc=repr(exc)[:200])
            mech0 = f"{cname}.{name}.setter"
            if isinstance(exc, (NotImplementedError, ImportError)):
                rec.note(f"{cname}.{name}: not provided")
                return
            g1 = geom_state(s)
            unchanged = same_state(tok["geom"], g1)
            is_bad = name not in ("centroid", "center") and not (np.all(np.isfinite(np.asarray(v, float))) and float(v) > 0)
            if isinstance(tok["old"], Exception):
                rec.note("getter raises on the base shape (property does not exist for it); setter raising is not judged")
            elif is_bad and not ((cname, name) in SINGLE and name == "radius" and float(v) == 0.0):
                rec.check("bad-target-refused", isinstance(exc, ValueError), mech0 + f"/bad-target-raises-{type(exc).__name__}-not-ValueError", lambda: info)
                rec.check("bad-target-refused", unchanged, mech0 + "/bad-target-raises-but-geometry-changed",
                          lambda: dict(info, before=tok["geom"], after=g1))
            elif isinstance(tok["old"], Exception):
                rec.note("getter raises on the base shape (property does not exist for it); setter raising is not judged")
            else:
                rec.violation("read-back", mech0 + f"/good-target-raises-{type(exc).__name__}", lambda: info)
        return f

    for cname in CLASSES:
        cls = getattr(cs, cname)
        _, setters, _ = fpr.members(cls)
        for sname in setters:
            contracts.hook(cls, sname, which="set", pre=pre(sname), post=post(sname), raised=raised(sname))
    return state


def _apply(rec, state, s, cname, blabel, sname, mode, val, rng):
    with contracts.quiet():
        try:
            old = getattr(s, sname)
        except Exception:
            old = None
    if mode == "move":
        u = next((f for lab, f in UNITS if blabel.endswith("-" + lab)), 1.0)      # moves are in the units of the base
        step = np.array([0.7, -1.3, 2.1]) * u
        target = np.asarray(old, float) + step if old is not None else step
        if val == "list":
            target = [float(x) for x in target]
        elif val == "own-vertex-view" and hasattr(s, "vertices"):
            with contracts.quiet():
                target = s.vertices[len(s.vertices) // 2]        # a view into the shape's own array
        elif val == "own-centroid" and old is not None:
            target = old                                         # the very array the getter handed out (a no-op move)
    elif mode == "ratio":
        if old is None:
            rec.note(f"{cname}.{sname}: getter raises on base {blabel}; not judged")
            return False
        target = float(old) * float(val) ** prop_dim(sname)
    else:
        target = val
    state["current"] = {"class": cname, "base": blabel, "property": sname, "mode": mode, "value": val}
    state["target"] = s
    try:
        setattr(s, sname, target)
    except Exception:
        pass     # judged by the hooks
    finally:
        state["current"] = None
        state["target"] = None
    return True


def run_case(i, rng, rec, tier, state):
    P = plan()
    B = state["B"]
    if i < len(P):
        cname, bi, sname, mode, val = P[i]
        blabel, ctor = B[cname][bi]
        s = ctor()
        rec.cls(cname)
        rec.cls("mode:" + mode)
        _apply(rec, state, s, cname, blabel, sname, mode, val, rng)
        if mode != "ratio" or val != 1.0:
            rec.nontriv(cname, blabel, sname, mode, val)
        if i % 500 == 0:
            rec.sample({"class": cname, "base": blabel, "property": sname, "mode": mode, "value": val})
        return
    # thorough: random chains of setters on one object (read-back + similarity judged at every step)
    cs = state["cs"]
    cname = CLASSES[int(rng.integers(len(CLASSES)))]
    blabel, ctor = B[cname][int(rng.integers(len(B[cname])))]
    s = ctor()
    _, setters, _ = fpr.members(getattr(cs, cname))
    chain = []
    for _ in range(6):
        sname = setters[int(rng.integers(len(setters)))]
        mode = "move" if sname in ("centroid", "center") else ("bad" if rng.random() < 0.15 else "ratio")
        val = str(rng.choice(["array", "list", "own-vertex-view"])) if mode == "move" else (float(rng.choice(BAD)) if mode == "bad" else float(np.exp(rng.uniform(-2, 2))))
        if mode == "bad" and math.isinf(val) and (not hasattr(getattr(cs, cname), "vertices") or sname == "radius"):
            val = -1.0      # +inf is a stated bad target only where it would leave non-finite vertices (see plan())
        chain.append((sname, mode, val))
        _apply(rec, state, s, cname, blabel, sname, mode, val, rng)
    rec.cls("chain:" + cname)
    rec.nontriv(cname, blabel, chain)

"""C10 -- Circle, ellipse, sphere and ellipsoid measures equal their defining integrals.

Monitor: postconditions on the real getters (hooked from outside), evaluated on every
call the workload or the library itself makes.  Oracle: closed-form integrals written
from the definitions + mpmath (Carlson R_G for the ellipsoid area, E(m) for the ellipse
perimeter, numerical quadrature of the arc-length integral on a sub-sample)."""

import math

import numpy as np

from .. import contracts, gen, geom

PROPERTY = "C10"
RULE = ("G-curved: radii/semi-axes log-uniform in 1e-3..1e3 in every ordering, ties, near-ties with "
        "relative gaps 1e-15..1e-1, needle/disc limits; centres origin/axis/generic/far; int, float and "
        "numpy-typed arguments.  Non-trivial = centre with distinct non-zero components, or axes not "
        "sorted ascending, or a near-tie; distinct = SHA-1 of rounded (class, axes, centre).")
ASSUMPTIONS = ["mpmath elliptic functions (ellipe, elliprg) and quad are correct at 30+ digits",
               "2-D curved shapes: only the zz entry of inertia_tensor is judged (coxeter documents the "
               "diag(0,0,J) convention for non-orientable 2-D shapes)"]
ANCHORS = [
    "coxeter.shapes.circle:Circle.planar_moments_inertia", "coxeter.shapes.circle:Circle.area",
    "coxeter.shapes.ellipse:Ellipse.planar_moments_inertia", "coxeter.shapes.ellipse:Ellipse.perimeter",
    "coxeter.shapes.ellipse:Ellipse.eccentricity", "coxeter.shapes.ellipse:Ellipse.iq",
    "coxeter.shapes.sphere:Sphere.inertia_tensor", "coxeter.shapes.sphere:Sphere.volume",
    "coxeter.shapes.ellipsoid:Ellipsoid.surface_area", "coxeter.shapes.ellipsoid:Ellipsoid.inertia_tensor",
    "coxeter.shapes.base_classes:Shape2D.polar_moment_inertia", "coxeter.shapes.base_classes:Shape3D.iq",
    "coxeter.shapes.utils:translate_inertia_tensor",
]
REQUIRED_MONITORS = ["Circle.planar_moments_inertia", "Ellipse.planar_moments_inertia", "Ellipse.perimeter",
                     "Ellipsoid.surface_area", "Ellipsoid.inertia_tensor", "Sphere.inertia_tensor",
                     "Ellipse.iq", "Ellipsoid.iq"]
REQUIRED_CLASSES = ["Circle", "Ellipse", "Sphere", "Ellipsoid", "axes:neartie", "axes:tie", "center:generic", "history:set-then-read", "center-form:int"]

REL = 1e-9
_cache = {}


def ncases(tier):
    return 4000 if tier == "quick" else 120000


def _params(s):
    name = type(s).__name__
    c = np.asarray(s.centroid, float)
    if name == "Circle":
        return name, (float(s.radius), float(s.radius)), c
    if name == "Ellipse":
        return name, (float(s.a), float(s.b)), c
    if name == "Sphere":
        return name, (float(s.radius),) * 3, c
    return name, (float(s.a), float(s.b), float(s.c)), c


def _neargap(ax):
    ax = sorted(ax)
    g = [(ax[i + 1] - ax[i]) / ax[i + 1] for i in range(len(ax) - 1)]
    pos = [x for x in g if x > 0]
    return min(pos) if pos else 0.0


def expected(s):
    name, ax, c = _params(s)
    E = {}
    if name in ("Circle", "Ellipse"):
        a, b = ax
        A = math.pi * a * b
        key = ("per", a, b)
        if key not in _cache:
            _cache[key] = geom.ellipse_perimeter(a, b) if a != b else 2 * math.pi * a
        P = _cache[key]
        lo, hi = min(a, b), max(a, b)
        E.update(area=A, perimeter=P, circumference=P,
                 eccentricity=math.sqrt(max(0.0, (1 - lo / hi) * (1 + lo / hi))),
                 iq=4 * math.pi * A / P ** 2,
                 planar=(A * b * b / 4 + A * c[1] ** 2, A * a * a / 4 + A * c[0] ** 2, A * c[0] * c[1]))
        E["polar"] = E["planar"][0] + E["planar"][1]
        E["inertia_zz"] = E["polar"]
    else:
        a, b, cc = ax
        V = 4.0 / 3.0 * math.pi * a * b * cc
        key = ("area", a, b, cc)
        if key not in _cache:
            _cache[key] = geom.ellipsoid_area(a, b, cc)
        S = _cache[key]
        Ic = np.diag([b * b + cc * cc, a * a + cc * cc, a * a + b * b]) * V / 5
        I = Ic + V * (np.dot(c, c) * np.eye(3) - np.outer(c, c))
        E.update(volume=V, surface_area=S, iq=36 * math.pi * V * V / S ** 3, inertia=I)
    E["_ax"], E["_c"], E["_name"] = ax, c, name
    return E


def setup(rec, tier):
    import coxeter.shapes as cs

    def wit(s):
        name, ax, c = _params(s)
        return {"class": name, "axes": ax, "center": c}

    def mech(s, member):
        name, ax, c = _params(s)
        tags = []
        if np.any(c != 0):
            tags.append("offcentre")
        return f"{name}.{member}" + ("/" + "+".join(tags) if tags else "")

    def scalar(member, key, rel=REL, magkey=None):
        def post(s, args, kwargs, result, token):
            E = expected(s)
            want = E[key]
            tol = rel * max(abs(want), abs(E[magkey]) if magkey else 0.0)
            if key == "surface_area" and 0 < _neargap(E["_ax"]) < 1e-3:
                tol = 1e-7 * abs(want)
            if key == "eccentricity":
                # e = sqrt(1-(b/a)^2) is ill-conditioned near ties: absolute tolerance on e^2
                got2, want2 = float(result) ** 2, want ** 2
                rec.close(f"{E['_name']}.{member}", got2, want2, 1e-12 + 1e-9 * want2, mech(s, member), lambda: wit(s))
                return
            rec.close(f"{E['_name']}.{member}", float(result), want, tol, mech(s, member), lambda: wit(s))
        return post

    def iq_post(s, args, kwargs, result, token):
        E = expected(s)
        m = f"{E['_name']}.iq"
        rec.close(m, float(result), min(E["iq"], 1.0) if E["iq"] > 1 - 1e-13 else E["iq"], 1e-9, mech(s, "iq"), lambda: wit(s))
        rec.check(m + "<=1", float(result) <= 1 + 1e-12, f"{E['_name']}.iq/exceeds-one", lambda: dict(wit(s), got=result))
        gap = _neargap(E["_ax"])
        if gap >= 1e-5:
            rec.check(m + "<1-unless-round", float(result) < 1.0, f"{E['_name']}.iq/equals-one-for-nonround",
                      lambda: dict(wit(s), got=result))

    def planar_post(s, args, kwargs, result, token):
        E = expected(s)
        A = E["area"]
        mag = A * (max(E["_ax"]) ** 2 + float(np.dot(E["_c"], E["_c"])))
        res = np.array([float(x) for x in result])
        c = E["_c"]
        m = mech(s, "planar_moments_inertia")
        # model of the known defect: parallel-axis terms A*cx^2 and A*cy^2 attached to the wrong axis
        a_, b_ = E["_ax"]
        swapped = np.array([A * b_ * b_ / 4 + A * c[0] ** 2, A * a_ * a_ / 4 + A * c[1] ** 2, A * c[0] * c[1]])
        if res.shape == (3,) and np.all(np.abs(res - swapped) <= REL * mag) and abs(c[0]) != abs(c[1]):
            m = f"{E['_name']}.planar_moments_inertia/parallel-axis-terms-swapped"
        rec.close(f"{E['_name']}.planar_moments_inertia", res, np.array(E["planar"]), REL * mag, m,
                  lambda: wit(s))
        if not np.any(c) and res.shape == (3,):
            # centred at the origin each moment is a single product: the small one of a needle (about its long axis) is as
            # much a defining integral as the large one, and is judged relative to itself
            want = np.array(E["planar"][:2], float)
            rec.check(f"{E['_name']}.planar_moments_inertia", bool(np.all(np.abs(res[:2] - want) <= 1e-12 * want)),
                      f"{E['_name']}.planar_moments_inertia/centred-moment-not-accurate-relative-to-itself", lambda: dict(wit(s), got=res, want=want))

    def polar_post(s, args, kwargs, result, token):
        E = expected(s)
        mag = E["area"] * (max(E["_ax"]) ** 2 + float(np.dot(E["_c"], E["_c"])))
        rec.close(f"{E['_name']}.polar_moment_inertia", float(result), E["polar"], REL * mag,
                  mech(s, "polar_moment_inertia"), lambda: wit(s))

    def it2d_post(s, args, kwargs, result, token):
        E = expected(s)
        mag = E["area"] * (max(E["_ax"]) ** 2 + float(np.dot(E["_c"], E["_c"])))
        r = np.asarray(result, float)
        ok = r.shape == (3, 3) and np.all(np.isfinite(r))
        rec.check(f"{E['_name']}.inertia_tensor", ok and abs(r[2, 2] - E["inertia_zz"]) <= REL * mag,
                  mech(s, "inertia_tensor"), lambda: dict(wit(s), got=result, want_zz=E["inertia_zz"]))

    def it3d_post(s, args, kwargs, result, token):
        E = expected(s)
        mag = E["volume"] * (max(E["_ax"]) ** 2 + float(np.dot(E["_c"], E["_c"])))
        rec.close(f"{E['_name']}.inertia_tensor", np.asarray(result, float), E["inertia"], REL * mag,
                  mech(s, "inertia_tensor"), lambda: wit(s))
        r = np.asarray(result, float)
        if not np.any(E["_c"]) and r.shape == (3, 3):
            # centred at the origin every principal moment is V/5 times a sum of two squares: the small moment of a needle
            # (about its long axis) is judged relative to itself, not to the large ones
            want = np.diag(E["inertia"])
            rec.check(f"{E['_name']}.inertia_tensor", bool(np.all(np.abs(np.diag(r) - want) <= 1e-12 * want)),
                      f"{E['_name']}.inertia_tensor/centred-principal-moment-not-accurate-relative-to-itself",
                      lambda: dict(wit(s), got=np.diag(r), want=want))

    for cls in (cs.Circle, cs.Ellipse):
        contracts.hook(cls, "area", post=scalar("area", "area"))
        contracts.hook(cls, "perimeter", post=scalar("perimeter", "perimeter"))
        contracts.hook(cls, "circumference", post=scalar("circumference", "circumference"))
        contracts.hook(cls, "eccentricity", post=scalar("eccentricity", "eccentricity"))
        contracts.hook(cls, "iq", post=iq_post)
        contracts.hook(cls, "planar_moments_inertia", post=planar_post)
        contracts.hook(cls, "polar_moment_inertia", post=polar_post)
        contracts.hook(cls, "inertia_tensor", post=it2d_post)
    for cls in (cs.Sphere, cs.Ellipsoid):
        contracts.hook(cls, "volume", post=scalar("volume", "volume"))
        contracts.hook(cls, "surface_area", post=scalar("surface_area", "surface_area"))
        contracts.hook(cls, "iq", post=iq_post)
        contracts.hook(cls, "inertia_tensor", post=it3d_post)
    return {"cs": cs}


def _typed(rng, x):
    u = rng.random()
    if u < 0.5:
        return float(x)
    if u < 0.6:
        return np.array(float(x))      # a zero-dimensional array (a value picked out of an array): the shape then keeps an array
    if u < 0.8:
        return np.float64(x)
    if float(x).is_integer():
        return int(x)
    return float(x)


def run_case(i, rng, rec, tier, state):
    cs = state["cs"]
    which = ["Circle", "Ellipse", "Sphere", "Ellipsoid"][i % 4]
    k = {"Circle": 1, "Ellipse": 2, "Sphere": 1, "Ellipsoid": 3}[which]
    ax, mode = gen.axes_case(rng, k)
    if rng.random() < 0.1:
        ax = [float(round(a)) if round(a) >= 1 else a for a in ax]
    dims = 2 if which in ("Circle", "Ellipse") else 3
    c, cmode = gen.center_case(rng, max(ax), dims)
    cu = rng.random()
    center = tuple(float(x) for x in c) if cu < 0.4 else (list(c) if cu < 0.6 else np.array(c))
    if rng.random() < 0.2:
        # whole-number centres given as integers (Python ints, int64 / int32 arrays): (1, 2, 3) is as good a centre as (1., 2., 3.)
        ci = np.rint(c / max(ax) * float(rng.choice([1, 3]))).astype(int) if np.any(c != 0) else rng.integers(-4, 5, size=3)
        if dims == 2:
            ci[2] = 0
        c = ci.astype(float)
        form = int(rng.integers(4))
        center = (tuple(int(x) for x in ci), [int(x) for x in ci], ci.astype(np.int64), ci.astype(np.int32))[form]
        rec.cls("center-form:int")
    args = [_typed(rng, a) for a in ax]
    s = getattr(cs, which)(*args, center)
    rec.cls(which)
    rec.cls("axes:" + mode)
    rec.cls("center:" + cmode)
    members = (["area", "perimeter", "circumference", "eccentricity", "iq", "planar_moments_inertia",
                "polar_moment_inertia", "inertia_tensor"] if dims == 2
               else ["volume", "surface_area", "iq", "inertia_tensor"])
    for m in members:
        try:
            getattr(s, m)
        except Exception as e:  # a getter of a valid shape must not raise
            rec.violation(f"{which}.{m}", f"{which}.{m}/raises-{type(e).__name__}",
                          {"class": which, "axes": ax, "center": c, "exc": repr(e)})
    # the integrals are those of the shape *as given*: a getter that reports the right number and quietly rewrites a radius or
    # semi-axis (possible in place when the parameter is a 0-d array) makes every later report describe another shape
    with contracts.quiet():
        now = [float(s.radius)] if k == 1 else [float(getattr(s, nm_)) for nm_ in ("a", "b", "c")[:k]]
        cnow = np.asarray(s.centroid, float)
    rec.check("reads-leave-the-shape-as-given", now == [float(a) for a in ax] and bool(np.all(cnow == np.asarray(c, float))),
              f"{which}/parameters-changed-by-reading-its-measures", lambda: {"class": which, "given": ax, "now": now, "center_given": c, "center_now": cnow,
                                                                               "argument_types": [type(a).__name__ for a in args]})
    # history: the same object after a parameter or size assignment must still report the integrals of its *current*
    # parameters (hidden caches filled by the reads above must not survive an assignment)
    if (i // 4) % 2 == 0:
        names = {"Circle": ["radius", "area", "perimeter"], "Ellipse": ["a", "b", "area", "perimeter"],
                 "Sphere": ["radius", "diameter", "volume", "surface_area"], "Ellipsoid": ["a", "b", "c", "volume", "surface_area"]}[which]
        for _ in range(2):
            nm = names[int(rng.integers(len(names)))]
            try:
                with contracts.quiet():
                    cur = float(getattr(s, nm))
                setattr(s, nm, cur * float(np.exp(rng.uniform(-1.5, 1.5))))
                if rng.random() < 0.3:
                    s.centroid = np.asarray(s.centroid, float) + rng.uniform(-2, 2, size=3) * (1 if dims == 3 else np.array([1, 1, 0]))
            except Exception as e:
                rec.violation(f"{which}.{nm}", f"{which}.{nm}.setter/raises-{type(e).__name__}", {"class": which, "axes": ax, "exc": repr(e)})
                break
            rec.cls("history:set-then-read")
            for m in members:
                try:
                    getattr(s, m)
                except Exception as e:
                    rec.violation(f"{which}.{m}", f"{which}.{m}/raises-after-assignment-{type(e).__name__}", {"class": which, "axes": ax, "exc": repr(e)})
    nz = c[c != 0]
    nontriv = (len(set(np.abs(nz))) == len(nz) and len(nz) >= 2) or list(ax) != sorted(ax) or mode == "neartie"
    if nontriv:
        rec.nontriv(which, np.array(ax), c)
    if i < 8:
        rec.sample({"class": which, "axes": ax, "center": c, "axes_mode": mode})
    # quadrature second opinion on a sub-sample (independent of mpmath's ellipe)
    if which == "Ellipse" and i % 400 == 1:
        q = geom.ellipse_perimeter_quad(ax[0], ax[1])
        rec.close("oracle-second-opinion:ellipse-quad", q, geom.ellipse_perimeter(ax[0], ax[1]), 1e-9 * q,
                  "oracle/ellipse-perimeter-disagrees", {"axes": ax})

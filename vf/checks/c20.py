"""C20 -- Exported mesh files describe exactly the polyhedron.

Monitor: postcondition on each ``coxeter.io.to_*`` and on ``Polyhedron.save``: the file just
written is read back by an independent strict parser (O-format, written from the format
specifications, sharing no code with coxeter.io) and compared with the shape: declared
counts, vertex coordinates (exact doubles), face cycles, outward orientation (signed volume
of the parsed mesh from O-solid), STL triangles covering each face with outward normals;
``save`` dispatch and unknown types; bitwise state of the shape before/after."""

import os
import pathlib
import re
import shutil
import tempfile
import xml.etree.ElementTree as ET

import numpy as np

from .. import aging, contracts, gen, geom
from .c16 import deep_state, state_diff_keys, SCRATCH

PROPERTY = "C20"
RULE = ("G-convex and G-mesh polyhedra (both classes), face degrees 3..12, coordinates of both signs and magnitudes 1e-6..1e6 (values "
        "printed in exponent notation), str and pathlib.Path file names, x 7 formats through io.to_* and save.  Non-trivial = a face of "
        "degree > 3 or a coordinate printed in exponent notation or a non-convex mesh; distinct = SHA-1 of shape + format.")
ASSUMPTIONS = ["parsers follow the published format descriptions: Wavefront OBJ, Geomview OFF, PLY 1.0 ASCII, legacy VTK 3.0 POLYDATA, "
               "ASCII STL, X3D XML encoding (IndexedFaceSet), and the HTML wrapper must embed that X3D scene",
               "vertex coordinates must round-trip exactly (repr/float)"]
ANCHORS = ["coxeter.io:to_obj", "coxeter.io:to_off", "coxeter.io:to_stl", "coxeter.io:to_ply", "coxeter.io:to_x3d", "coxeter.io:to_vtk",
           "coxeter.io:to_html", "coxeter.shapes.polyhedron:Polyhedron.save"]
REQUIRED_MONITORS = ["OBJ", "OFF", "PLY", "VTK", "STL", "X3D", "HTML", "save-dispatch", "save-unknown-type", "shape-unchanged"]
REQUIRED_CLASSES = ["class:ConvexPolyhedron", "class:Polyhedron", "exponent-notation", "face-degree>=5", "path:pathlib"]
FORMATS = ["OBJ", "OFF", "PLY", "VTK", "STL", "X3D", "HTML"]


class FormatError(Exception):
    pass


def ncases(tier):
    return 240 if tier == "quick" else 5000


# ---------------------------------------------------------------------------
# strict readers
# ---------------------------------------------------------------------------
def _ints(tokens, what):
    out = []
    for t in tokens:
        if not re.fullmatch(r"[-+]?\d+", t):
            raise FormatError(f"{what}: token {t!r} is not an integer")
        out.append(int(t))
    return out


def _floats(tokens, what):
    out = []
    for t in tokens:
        try:
            out.append(float(t))
        except ValueError:
            raise FormatError(f"{what}: token {t!r} is not a number")
    return out


def read_obj(text):
    V, F = [], []
    for ln in text.splitlines():
        s = ln.strip()
        if not s or s.startswith("#"):
            continue
        tok = s.split()
        if tok[0] == "v":
            if len(tok) not in (4, 5):
                raise FormatError("OBJ: vertex line needs 3 (4) coordinates")
            V.append(_floats(tok[1:4], "OBJ vertex"))
        elif tok[0] == "f":
            idx = _ints([t.split("/")[0] for t in tok[1:]], "OBJ face")
            if len(idx) < 3:
                raise FormatError("OBJ: face with fewer than 3 vertices")
            if any(i == 0 for i in idx):
                raise FormatError("OBJ: index 0 (indices are 1-based)")
            F.append([i - 1 if i > 0 else len(V) + i for i in idx])
        else:
            raise FormatError(f"OBJ: unexpected statement {tok[0]!r}")
    if any(i < 0 or i >= len(V) for f in F for i in f):
        raise FormatError("OBJ: face index out of range")
    return np.array(V), F, {}


def read_off(text):
    toks_lines = [ln.split("#")[0].split() for ln in text.splitlines()]
    lines = [t for t in toks_lines if t]
    if not lines or lines[0][0] != "OFF":
        raise FormatError("OFF: missing OFF keyword")
    rest = lines[0][1:]
    body = lines[1:]
    if len(rest) < 3:
        if not body:
            raise FormatError("OFF: missing counts")
        rest = body[0]
        body = body[1:]
    nv, nf, ne = _ints(rest[:3], "OFF header counts")
    if len(body) < nv + nf:
        raise FormatError("OFF: fewer lines than declared")
    V = [_floats(t[:3], "OFF vertex") for t in body[:nv]]
    F = []
    for t in body[nv:nv + nf]:
        k = _ints(t[:1], "OFF face size")[0]
        idx = _ints(t[1:1 + k], "OFF face")
        if len(idx) != k:
            raise FormatError("OFF: face shorter than its declared size")
        F.append(idx)
    if len(body) != nv + nf:
        raise FormatError("OFF: trailing data after declared elements")
    if any(i < 0 or i >= nv for f in F for i in f):
        raise FormatError("OFF: face index out of range")
    return np.array(V), F, {"nv": nv, "nf": nf, "ne": ne}


def read_ply(text):
    lines = text.splitlines()
    if not lines or lines[0].strip() != "ply":
        raise FormatError("PLY: magic")
    if lines[1].strip() != "format ascii 1.0":
        raise FormatError("PLY: format line")
    elems, i = [], 2
    while i < len(lines) and lines[i].strip() != "end_header":
        t = lines[i].split()
        if not t or t[0] in ("comment", "obj_info"):
            pass
        elif t[0] == "element":
            elems.append([t[1], _ints([t[2]], "PLY element count")[0], []])
        elif t[0] == "property":
            if not elems:
                raise FormatError("PLY: property before element")
            elems[-1][2].append(t[1:])
        else:
            raise FormatError(f"PLY: unexpected header keyword {t[0]!r}")
        i += 1
    if i == len(lines):
        raise FormatError("PLY: no end_header")
    body = [ln.split() for ln in lines[i + 1:] if ln.strip()]
    names = [e[0] for e in elems]
    if names[:2] != ["vertex", "face"]:
        raise FormatError("PLY: expected elements vertex, face")
    nv, nf = elems[0][1], elems[1][1]
    if [p[-1] for p in elems[0][2]][:3] != ["x", "y", "z"]:
        raise FormatError("PLY: vertex properties x y z")
    fp = elems[1][2]
    if not (len(fp) == 1 and fp[0][0] == "list" and fp[0][-1] in ("vertex_indices", "vertex_index")):
        raise FormatError("PLY: face property list ... vertex_indices")
    if len(body) != nv + nf:
        raise FormatError("PLY: body length differs from declared counts")
    V = [_floats(t[:3], "PLY vertex") for t in body[:nv]]
    F = []
    for t in body[nv:]:
        k = _ints(t[:1], "PLY face size")[0]
        idx = _ints(t[1:], "PLY face")
        if len(idx) != k:
            raise FormatError("PLY: face size mismatch")
        if fp[0][1] == "uchar" and k > 255:
            raise FormatError("PLY: list count exceeds uchar")
        F.append(idx)
    if any(i < 0 or i >= nv for f in F for i in f):
        raise FormatError("PLY: face index out of range")
    return np.array(V), F, {"nv": nv, "nf": nf}


def read_vtk(text):
    lines = text.splitlines()
    if not re.fullmatch(r"# vtk DataFile Version \d+\.\d+", lines[0].strip()):
        raise FormatError("VTK: header line")
    if len(lines[1]) > 256:
        raise FormatError("VTK: title too long")
    if lines[2].strip() != "ASCII":
        raise FormatError("VTK: ASCII keyword")
    if lines[3].split() != ["DATASET", "POLYDATA"]:
        raise FormatError("VTK: DATASET POLYDATA")
    toks = " ".join(lines[4:]).split()
    if toks[0] != "POINTS":
        raise FormatError("VTK: POINTS")
    n = _ints(toks[1:2], "VTK POINTS count")[0]
    if toks[2] not in ("float", "double"):
        raise FormatError("VTK: POINTS data type")
    V = np.array(_floats(toks[3:3 + 3 * n], "VTK point")).reshape(n, 3)
    p = 3 + 3 * n
    if toks[p] != "POLYGONS":
        raise FormatError("VTK: POLYGONS")
    m, size = _ints(toks[p + 1:p + 3], "VTK POLYGONS counts")
    data = _ints(toks[p + 3:], "VTK polygon data")
    if len(data) != size:
        raise FormatError("VTK: POLYGONS size differs from data length")
    F, q = [], 0
    for _ in range(m):
        k = data[q]
        F.append(data[q + 1:q + 1 + k])
        q += 1 + k
    if q != size:
        raise FormatError("VTK: POLYGONS data not consumed exactly")
    if any(i < 0 or i >= n for f in F for i in f):
        raise FormatError("VTK: index out of range")
    return V, F, {"nv": n, "nf": m}


def read_stl(text):
    toks = text.split()
    if toks[0] != "solid":
        raise FormatError("STL: solid")
    lines = [ln.strip() for ln in text.splitlines() if ln.strip()]
    name = lines[0][5:].strip()
    if not lines[-1].startswith("endsolid") or lines[-1][8:].strip() != name:
        raise FormatError("STL: endsolid name")
    tris, normals, i = [], [], 1
    while i < len(lines) - 1:
        t = lines[i].split()
        if t[:2] != ["facet", "normal"] or len(t) != 5:
            raise FormatError("STL: facet normal")
        normals.append(_floats(t[2:], "STL normal"))
        if lines[i + 1].split() != ["outer", "loop"]:
            raise FormatError("STL: outer loop")
        tri = []
        for k in range(3):
            v = lines[i + 2 + k].split()
            if v[0] != "vertex" or len(v) != 4:
                raise FormatError("STL: vertex")
            tri.append(_floats(v[1:], "STL vertex"))
        if lines[i + 5] != "endloop" or lines[i + 6] != "endfacet":
            raise FormatError("STL: endloop/endfacet")
        tris.append(tri)
        i += 7
    return np.array(tris), np.array(normals), {"name": name}


def read_x3d_root(root, strict_case=True):
    def local(t):
        return t.split("}")[-1]

    notes = []
    if local(root.tag) != "X3D":
        notes.append(f"root element is <{local(root.tag)}>, X3D requires <X3D>")
    ifs = [e for e in root.iter() if local(e.tag) == "IndexedFaceSet"]
    if len(ifs) != 1:
        raise FormatError("X3D: exactly one IndexedFaceSet expected")
    parents = {c: p for p in root.iter() for c in p}
    par = parents[ifs[0]]
    if local(par.tag) != "Shape":
        notes.append(f"IndexedFaceSet is a child of <{local(par.tag)}>, X3D requires <Shape>")
    coord = [e for e in ifs[0] if local(e.tag) == "Coordinate"]
    if len(coord) != 1:
        raise FormatError("X3D: Coordinate child")
    pts = np.array(_floats(coord[0].get("point", "").replace(",", " ").split(), "X3D point")).reshape(-1, 3)
    idx = _ints(ifs[0].get("coordIndex", "").replace(",", " ").split(), "X3D coordIndex")
    F, cur = [], []
    for k in idx:
        if k == -1:
            if len(cur) < 3:
                raise FormatError("X3D: face with fewer than 3 indices")
            F.append(cur)
            cur = []
        else:
            if k < 0 or k >= len(pts):
                raise FormatError("X3D: coordIndex out of range")
            cur.append(k)
    if cur:
        F.append(cur)       # a trailing -1 is optional
    return pts, F, {"notes": notes}


def read_x3d(text):
    return read_x3d_root(ET.fromstring(text))


def read_html(text):
    if not text.lstrip().lower().startswith("<!doctype html>"):
        raise FormatError("HTML: doctype")
    body = text[text.lower().index("<html"):]
    root = ET.fromstring(body)
    tags = [e.tag.split("}")[-1].lower() for e in root.iter()]
    if "script" not in tags or "body" not in tags:
        raise FormatError("HTML: script/body")
    x = [e for e in root.iter() if e.tag.split("}")[-1].lower() == "x3d"]
    if len(x) != 1:
        raise FormatError("HTML: embedded x3d scene")
    pts, F, meta = read_x3d_root(x[0])
    meta["notes"] = []          # element-name case is irrelevant inside HTML
    return pts, F, meta


READERS = {"OBJ": read_obj, "OFF": read_off, "PLY": read_ply, "VTK": read_vtk, "X3D": read_x3d, "HTML": read_html}


# ---------------------------------------------------------------------------
def canon(f):
    f = [int(i) for i in f]
    k = f.index(min(f))
    return tuple(f[k:] + f[:k])


def judge(rec, fmt, text, V, faces, vol, info):
    """Compare parsed file with the shape (V float array, faces index cycles, vol>0)."""
    mech = f"io.to_{fmt.lower()}"
    try:
        if fmt == "STL":
            tris, normals, meta = read_stl(text)
        else:
            PV, PF, meta = READERS[fmt](text)
    except FormatError as e:
        msg = str(e)
        key = "not-well-formed"
        if fmt == "OFF" and "header counts" in msg:
            key = "header-count-token-not-an-integer"
        rec.violation(fmt, f"{mech}/{key}", dict(info, error=msg, head=text[:160]))
        return
    except Exception as e:
        rec.violation(fmt, f"{mech}/unparseable-{type(e).__name__}", dict(info, error=repr(e)[:200], head=text[:160]))
        return
    if fmt == "STL":
        ntri = sum(len(f) - 2 for f in faces)
        ok = len(tris) == ntri
        # every triangle uses shape vertices exactly, lies in one face, is outward (normal and vertex order)
        vid = {tuple(v): i for i, v in enumerate(V)}
        area = {}
        good = ok
        fsets = [set(int(i) for i in f) for f in faces]
        for t, n in zip(tris, normals):
            ids = [vid.get(tuple(p)) for p in t]
            if None in ids:
                good = False
                break
            owner = [k for k, s in enumerate(fsets) if set(ids) <= s]
            if not owner:
                good = False
                break
            cr = np.cross(t[1] - t[0], t[2] - t[0])
            if np.dot(cr, n) <= 0:
                good = False
                break
            area[owner[0]] = area.get(owner[0], 0.0) + np.linalg.norm(cr) / 2
        if good:
            fa = geom.mesh_area(V, faces)
            good = all(abs(area.get(k, 0.0) - fa[k]) <= 1e-9 * max(fa.max(), 1e-300) for k in range(len(faces)))
            v2, _, _ = geom.solid_exact(tris, ref=V.mean(0))
            good = good and abs(v2 - vol) <= 1e-9 * vol
        rec.check(fmt, bool(good), f"{mech}/triangles-do-not-cover-faces-outward", lambda: dict(info, ntri=len(tris), want=ntri))
        return
    if "nv" in meta:
        rec.check(fmt, meta["nv"] == len(PV) == len(V) and meta["nf"] == len(PF) == len(faces) and meta.get("ne", None) in (None, info["nedges"]),
                  f"{mech}/declared-counts-differ-from-data", lambda: dict(info, meta=meta))
    for note in meta.get("notes", []):
        rec.violation(fmt, f"{mech}/element-name-case-not-X3D", dict(info, note=note))
    if fmt in ("X3D", "HTML"):
        # points are listed per face corner: map back to shape vertices by exact coordinates
        vid = {tuple(v): i for i, v in enumerate(V)}
        try:
            PF = [[vid[tuple(PV[i])] for i in f] for f in PF]
        except KeyError:
            rec.violation(fmt, f"{mech}/coordinates-differ-from-shape-vertices", info)
            return
    else:
        same = PV.shape == V.shape and bool(np.all(PV == V))
        rec.check(fmt, same, f"{mech}/coordinates-differ-from-shape-vertices", lambda: dict(info, max_abs_diff=float(np.abs(PV - V).max()) if PV.shape == V.shape else None))
        if not same:
            return
    okf = sorted(map(canon, PF)) == sorted(map(canon, faces))
    rec.check(fmt, okf, f"{mech}/faces-differ-from-shape-cycles", lambda: dict(info, got=PF[:4], want=[list(f) for f in faces[:4]]))
    if okf:
        v2, _, _ = geom.solid_exact(geom.faces_to_tris(V, PF), ref=V.mean(0))
        rec.check(fmt, abs(v2 - vol) <= 1e-9 * vol, f"{mech}/faces-not-outward-oriented", lambda: dict(info, signed_volume=v2, volume=vol))


def setup(rec, tier):
    import coxeter.io as cio
    import coxeter.shapes as cs

    return {"cs": cs, "cio": cio, "tmp": tempfile.mkdtemp(prefix="c20_")}


def finish(rec, tier, state):
    np.set_printoptions(**_DEFAULT_PO)
    shutil.rmtree(state["tmp"], ignore_errors=True)


_DEFAULT_PO = {k_: v_ for k_, v_ in np.get_printoptions().items() if k_ in ("precision", "threshold", "edgeitems", "linewidth", "suppress")}


def run_case(i, rng, rec, tier, state):
    cs, cio, tmp = state["cs"], state["cio"], state["tmp"]
    if i % 2 == 0:
        c = gen.convex_case(rng, tabulated_frac=0.1)
        P = c["P"]
        if len(P) > 40:
            P = P[:40]
            P = P[gen.strict_hull_vertices(P)]
        mag = float(10 ** rng.uniform(-6, 6)) if rng.random() < 0.6 else 1.0
        P = P * mag
        s = cs.ConvexPolyhedron(P.copy()) if rng.random() < 0.6 else None
        if s is None:
            h = geom.hull_facets(P)
            iform, fx = gen.index_form(rng, h.facets, len(P))
            rec.cls("face-index-type:" + iform)
            s = cs.Polyhedron(P.copy(), fx, faces_are_convex=True)
        kind = c["kind"]
    else:
        c = gen.mesh_case(rng, kinds=("voxel", "extrusion", "perturbed"))
        mag = float(10 ** rng.uniform(-6, 6)) if rng.random() < 0.6 else 1.0
        iform, fx = gen.index_form(rng, c["faces"], len(c["V"]))
        rec.cls("face-index-type:" + iform)
        s = cs.Polyhedron(c["V"] * mag, fx, faces_are_convex=True)
        kind = c["kind"]
    if (i // 2) % 4 == 1:
        # one shape in four is exported after a public history (resizes, moves, diagonalize_inertia, to_hoomd): the files have
        # to describe the shape as it is now
        hist = aging.age(s, rng, allow=("size", "move", "rigid"))
        rec.cls("history:aged-object")
    with contracts.quiet():
        V = np.array(s.vertices, float)
        faces = [[int(x) for x in f] for f in s.faces]
        nedges = len({(min(a, b), max(a, b)) for f in faces for a, b in zip(f, f[1:] + f[:1])})
    vol, _, _ = geom.solid_exact(geom.faces_to_tris(V, faces), ref=V.mean(0))
    cls = type(s).__name__
    rec.cls("class:" + cls)
    expo = any("e" in repr(float(x)) for x in V.ravel())
    if expo:
        rec.cls("exponent-notation")
    maxdeg = max(len(f) for f in faces)
    if maxdeg >= 5:
        rec.cls("face-degree>=5")
    info = {"class": cls, "kind": kind, "nverts": len(V), "nfaces": len(faces), "nedges": nedges, "magnitude": mag, "vertices": V[:6]}
    before = deep_state(s)
    texts = {}
    # a file describes the polyhedron, whatever the session's display settings are: one case in three is exported while NumPy's
    # process-wide print options are what an interactive user may have set them to (few digits, short threshold, narrow lines);
    # the next case (and finish) puts the defaults back
    np.set_printoptions(**_DEFAULT_PO)
    if rng.random() < 0.33:
        np.set_printoptions(precision=int(rng.choice([2, 4])), threshold=int(rng.choice([5, 40])), edgeitems=2, linewidth=int(rng.choice([30, 75])),
                            suppress=bool(rng.random() < 0.5))
        rec.cls("numpy-print-options:changed")
    for fmt in FORMATS:
        use_path = rng.random() < 0.5
        fn = os.path.join(tmp, f"case{i}.{fmt.lower()}")
        arg = pathlib.Path(fn) if use_path else fn
        if use_path:
            rec.cls("path:pathlib")
        try:
            getattr(cio, "to_" + fmt.lower())(s, arg)
            with open(fn, "rb") as f:
                raw = f.read()
            text = raw.decode("utf-8")
        except Exception as e:
            rec.violation(fmt, f"io.to_{fmt.lower()}/raises-{type(e).__name__}", dict(info, exc=repr(e)[:300]))
            continue
        finally:
            if os.path.exists(fn):
                os.remove(fn)
        texts[fmt] = text
        judge(rec, fmt, text, V, faces, vol, info)
        if (maxdeg > 3 or expo or cls == "Polyhedron") and fmt == "OBJ":
            rec.nontriv(V, faces)
    # save() dispatches to the right writer
    for fmt in FORMATS:
        fn = os.path.join(tmp, f"save{i}.{fmt.lower()}")
        try:
            s.save(fmt, fn)
            with open(fn, "rb") as f:
                t2 = f.read().decode("utf-8")
            rec.check("save-dispatch", t2 == texts.get(fmt), f"Polyhedron.save/{fmt}-differs-from-io.to_{fmt.lower()}", lambda: dict(info, head=t2[:120]))
        except Exception as e:
            rec.violation("save-dispatch", f"Polyhedron.save/{fmt}-raises-{type(e).__name__}", dict(info, exc=repr(e)[:200]))
        finally:
            if os.path.exists(fn):
                os.remove(fn)
    for bad in ("obj", "XYZ", "", "STL ", None):
        fn = os.path.join(tmp, f"bad{i}")
        try:
            s.save(bad, fn)
            rec.violation("save-unknown-type", "Polyhedron.save/accepts-unknown-filetype", dict(info, filetype=bad))
        except ValueError:
            rec.ok("save-unknown-type")
        except Exception as e:
            rec.violation("save-unknown-type", f"Polyhedron.save/unknown-filetype-raises-{type(e).__name__}", dict(info, filetype=bad))
        finally:
            if os.path.exists(fn):
                os.remove(fn)
                rec.violation("save-unknown-type", "Polyhedron.save/unknown-filetype-writes-a-file", dict(info, filetype=bad))
    changed = [k for k in state_diff_keys(before, deep_state(s)) if k not in SCRATCH and k != "edges"]
    rec.check("shape-unchanged", not changed, "io/export-changes-the-shape:" + ",".join(changed[:3]), lambda: dict(info, changed=changed))
    if i < 6:
        rec.sample({"class": cls, "kind": kind, "nverts": len(V), "nfaces": len(faces), "max_face_degree": maxdeg, "magnitude": mag,
                    "obj_head": texts.get("OBJ", "")[:120]})

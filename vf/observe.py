"""Execution observers that feed evidence, never verdicts.

* line observer: ``sys.monitoring`` LINE events restricted to the code objects
  of the anchored functions; each callback returns DISABLE so every location
  costs one event.  Tells which lines of the anchors the workload really drove.
* floating-point observer: numpy error state set to 'call' so that FP
  exceptions raised while monitored calls run are counted.
"""

import importlib
import inspect
import sys

import numpy as np

TOOL = 3  # a free sys.monitoring tool id


def _resolve(spec):
    """'coxeter.shapes.polygon:Polygon.centroid' -> list of code objects."""
    modname, _, qual = spec.partition(":")
    obj = importlib.import_module(modname)
    parent = None
    for part in qual.split("."):
        parent = obj
        obj = inspect.getattr_static(obj, part) if inspect.isclass(parent) else getattr(obj, part)
    codes = []
    if isinstance(obj, property):
        for f in (obj.fget, obj.fset):
            if f is not None:
                codes.append(inspect.unwrap(f).__code__)
    elif isinstance(obj, (classmethod, staticmethod)):
        codes.append(inspect.unwrap(obj.__func__).__code__)
    elif hasattr(obj, "func") and hasattr(obj, "attrname"):  # cached_property
        codes.append(obj.func.__code__)
    else:
        codes.append(inspect.unwrap(obj).__code__)
    return codes


def _nested(code):
    out = [code]
    for c in code.co_consts:
        if hasattr(c, "co_code"):
            out.extend(_nested(c))
    return out


class LineObserver:
    def __init__(self, specs):
        self.specs = list(specs)
        self.codes = {}   # id(code) -> spec  (code objects compare by value, not identity: two classes with the same
        #                   two-line __init__ at the same line number of different files would collide as dict keys)
        self._keep = []   # the code objects themselves, so that the ids stay valid
        self.seen = {}    # spec -> set(lines)
        self.total = {}   # spec -> set(lines)
        self.active = False

    def start(self):
        mon = sys.monitoring
        for spec in self.specs:
            try:
                codes = _resolve(spec)
            except Exception:  # anchor renamed/removed: reported as never entered
                self.total[spec] = set()
                self.seen[spec] = set()
                continue
            self.seen.setdefault(spec, set())
            tot = self.total.setdefault(spec, set())
            for top in codes:
                for c in _nested(top):
                    self.codes[id(c)] = spec
                    self._keep.append(c)
                    tot.update(l for (_, _, l) in c.co_lines() if l is not None and l != c.co_firstlineno)
        try:
            mon.use_tool_id(TOOL, "verif-lines")
        except ValueError:
            return
        mon.register_callback(TOOL, mon.events.LINE, self._line)
        for c in self._keep:
            mon.set_local_events(TOOL, c, mon.events.LINE)
        self.active = True

    def _line(self, code, line):
        spec = self.codes.get(id(code))
        if spec is not None:
            self.seen[spec].add(line)
        return sys.monitoring.DISABLE

    def stop(self):
        if self.active:
            mon = sys.monitoring
            for c in self._keep:
                mon.set_local_events(TOOL, c, 0)
            mon.register_callback(TOOL, mon.events.LINE, None)
            mon.free_tool_id(TOOL)
            self.active = False

    def report(self):
        return {s: (sorted(self.seen.get(s, ())), len(self.total.get(s, ()))) for s in self.specs}


class FPObserver:
    """Counts numpy floating-point exception events (divide, invalid, overflow)."""

    def __init__(self, rec):
        self.rec = rec
        self.old = None

    def _call(self, kind, flag):
        self.rec.note("fp-event:" + kind.split()[0])

    def start(self):
        self.oldcall = np.seterrcall(self._call)
        self.old = np.seterr(divide="call", invalid="call", over="call", under="ignore")

    def stop(self):
        if self.old is not None:
            np.seterr(**self.old)
            np.seterrcall(self.oldcall)

"""One shard subprocess: python -m vf.shard Cxx tier seed shard nshards out [replay.json]"""
import json
import sys

from . import runner


def main(argv):
    prop, tier, seed, shard, nshards, out = argv[:6]
    only = None
    if len(argv) > 6:
        with open(argv[6]) as f:
            rp = json.load(f)
        w = rp["witnesses"][0]
        only, seed, tier = w["case"], w["seed"], w["tier"]
    rep = runner.run_shard(prop, tier, int(seed), int(shard), int(nshards), only_case=only)
    with open(out, "w") as f:
        json.dump(rep, f)
    if only is not None:
        print(json.dumps({"violations": rep["violations"], "evals": rep["evals"]}, indent=1)[:6000])


if __name__ == "__main__":
    main(sys.argv[1:])

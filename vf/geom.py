"""Reference models (oracles).  Nothing in this file imports or calls coxeter.

Trusted base: numpy arithmetic, ``fractions.Fraction``, mpmath, and the code here.
qhull (scipy.spatial.ConvexHull) is used only as a *checked proposer* in
:func:`hull_facets` for large point sets.
"""

import itertools
import math
from fractions import Fraction

import numpy as np

# ---------------------------------------------------------------------------
# solids
# ---------------------------------------------------------------------------


def tet_moments(tris, origin):
    """Volume, first and second moment (about ``origin``) of the solid bounded by
    outward-oriented triangles ``tris`` (T,3,3), by signed tetrahedra."""
    a = tris[:, 0] - origin
    b = tris[:, 1] - origin
    c = tris[:, 2] - origin
    det = np.einsum("ij,ij->i", a, np.cross(b, c))
    vol = det.sum() / 6
    m1 = (det[:, None] * (a + b + c)).sum(0) / 24
    s = a + b + c
    m2 = (np.einsum("n,ni,nj->ij", det, a, a) + np.einsum("n,ni,nj->ij", det, b, b)
          + np.einsum("n,ni,nj->ij", det, c, c) + np.einsum("n,ni,nj->ij", det, s, s)) / 120
    return vol, m1, m2


def fan(face):
    return [(face[0], face[i], face[i + 1]) for i in range(1, len(face) - 1)]


def faces_to_tris(verts, faces):
    idx = [t for f in faces for t in fan(list(f))]
    return np.asarray(verts, float)[np.array(idx)]


def solid_exact(tris, ref=None):
    """(volume, centroid, inertia tensor about the global origin), unit density."""
    tris = np.asarray(tris, float)
    o = tris.reshape(-1, 3).mean(0) if ref is None else np.asarray(ref, float)
    vol, m1, m2 = tet_moments(tris, o)
    cen = o + m1 / vol
    m2o = m2 + np.outer(o, m1) + np.outer(m1, o) + vol * np.outer(o, o)
    inertia = np.trace(m2o) * np.eye(3) - m2o
    return vol, cen, inertia


def solid_exact_fraction(verts, faces):
    """Same as solid_exact but in exact rational arithmetic (verts convertible exactly)."""
    V = [[Fraction(x) for x in v] for v in verts]
    vol = Fraction(0)
    m1 = [Fraction(0)] * 3
    m2 = [[Fraction(0)] * 3 for _ in range(3)]
    for f in faces:
        for (i, j, k) in fan(list(f)):
            a, b, c = V[i], V[j], V[k]
            det = (a[0] * (b[1] * c[2] - b[2] * c[1]) - a[1] * (b[0] * c[2] - b[2] * c[0])
                   + a[2] * (b[0] * c[1] - b[1] * c[0]))
            vol += det / 6
            s = [a[t] + b[t] + c[t] for t in range(3)]
            for t in range(3):
                m1[t] += det * s[t] / 24
                for u in range(3):
                    m2[t][u] += det * (a[t] * a[u] + b[t] * b[u] + c[t] * c[u] + s[t] * s[u]) / 120
    cen = [m / vol for m in m1]
    tr = m2[0][0] + m2[1][1] + m2[2][2]
    inertia = [[(tr if t == u else 0) - m2[t][u] for u in range(3)] for t in range(3)]
    return vol, cen, inertia


def mesh_area(verts, faces):
    verts = np.asarray(verts, float)
    out = []
    for f in faces:
        p = verts[list(f)]
        n = np.zeros(3)
        for i in range(1, len(p) - 1):
            n += np.cross(p[i] - p[0], p[i + 1] - p[0])
        out.append(np.linalg.norm(n) / 2)
    return np.array(out)


# ---------------------------------------------------------------------------
# convex hull facets without qhull
# ---------------------------------------------------------------------------


class DegenerateInput(Exception):
    """The point set is closer to degeneracy than the oracle's band (facets do not close up):
    such inputs are outside the generator margins and are not judged."""


class Hull:
    """Facets of a point set in convex position (or not: ``on_hull`` tells)."""

    def __init__(self, P, facets, normals, offsets):
        self.P = P
        self.facets = facets          # list of index lists, CCW about outward normal
        self.normals = normals        # (F,3) unit outward
        self.offsets = offsets        # (F,)  n.x = offset on the facet
        self.on_hull = sorted({i for f in facets for i in f})
        edges = {}
        for fi, f in enumerate(facets):
            for a, b in zip(f, f[1:] + f[:1]):
                edges.setdefault((min(a, b), max(a, b)), []).append(fi)
        self.edge_faces = edges

    @property
    def edges(self):
        return sorted(self.edge_faces)

    def closed(self):
        return all(len(v) == 2 for v in self.edge_faces.values())

    def tris(self):
        return faces_to_tris(self.P, self.facets)

    def mean_curvature_integral(self):
        """sum over edges of length * exterior angle / 2  (= 4 pi * mean width / 2 ...)."""
        tot = 0.0
        for (a, b), fs in self.edge_faces.items():
            n1, n2 = self.normals[fs[0]], self.normals[fs[1]]
            ext = math.atan2(np.linalg.norm(np.cross(n1, n2)), float(np.dot(n1, n2)))
            tot += np.linalg.norm(self.P[a] - self.P[b]) * ext
        return tot / 2

    def min_exterior_angle(self):
        """Smallest angle between the normals of two adjacent facets (0 = coplanar neighbours)."""
        best = math.pi
        for fs in self.edge_faces.values():
            if len(fs) == 2:
                n1, n2 = self.normals[fs[0]], self.normals[fs[1]]
                best = min(best, math.atan2(float(np.linalg.norm(np.cross(n1, n2))), float(np.dot(n1, n2))))
        return best

    def signed_dist(self, pts):
        """max over facets of plane distance: <0 strictly inside; for outside points a
        lower bound of the Euclidean distance."""
        pts = np.atleast_2d(pts)
        return (pts @ self.normals.T - self.offsets).max(axis=1)


def _order_facet(P, idx, normal):
    pts = P[idx]
    c = pts.mean(0)
    e1, e2, _ = plane_frame(normal)
    ang = np.arctan2((pts - c) @ e2, (pts - c) @ e1)
    return [idx[i] for i in np.argsort(ang)]


def hull_facets(P, band=1e-9, brute_max=36, check=True):
    """Facets of the convex hull of P, coplanar facets whole.

    Every vertex triple whose plane has all other points on one side (within
    ``band``*size) is a supporting plane; the points within the band form the facet.
    For more than ``brute_max`` points qhull proposes the candidate planes and the same
    band test decides (so qhull is checked, never trusted)."""
    P = np.asarray(P, float)
    n = len(P)
    size = float(np.ptp(P, axis=0).max())
    tol = band * size
    if n <= brute_max:
        cand = np.array(list(itertools.combinations(range(n), 3)))
    else:
        from scipy.spatial import ConvexHull

        cand = np.sort(ConvexHull(P).simplices, axis=1)
    facets = {}
    for lo in range(0, len(cand), 20000):
        idx = cand[lo:lo + 20000]
        a, b, c = P[idx[:, 0]], P[idx[:, 1]], P[idx[:, 2]]
        nrm = np.cross(b - a, c - a)
        ln = np.linalg.norm(nrm, axis=1)
        good = ln > 1e-10 * size * size
        idx, nrm, a = idx[good], nrm[good] / ln[good, None], a[good]
        d = nrm @ P.T - np.einsum("tk,tk->t", nrm, a)[:, None]
        pos = (d > tol).any(1)
        neg = (d < -tol).any(1)
        for t in np.nonzero(~(pos & neg))[0]:
            on = tuple(np.nonzero(np.abs(d[t]) <= tol)[0])
            if on not in facets:
                facets[on] = nrm[t] * (-1.0 if pos[t] else 1.0)
    fl, nl, ol = [], [], []
    for on, nv in sorted(facets.items()):
        # refine the normal from the whole facet (Newell) for accuracy
        f = _order_facet(P, list(on), nv)
        pts = P[f]
        nn = np.zeros(3)
        for i in range(len(f)):
            nn += np.cross(pts[i] - pts[0], pts[(i + 1) % len(f)] - pts[0])
        nn /= np.linalg.norm(nn)
        if np.dot(nn, nv) < 0:
            nn = -nn
        fl.append(f)
        nl.append(nn)
        ol.append(float(np.mean(pts @ nn)))
    h = Hull(P, fl, np.array(nl), np.array(ol))
    if check and (not h.closed() or len(h.on_hull) - len(h.edge_faces) + len(fl) != 2):
        raise DegenerateInput("facets of the supporting planes do not form a closed surface (near-coplanar or near-duplicate points)")
    return h


def in_convex_position(P, margin):
    """True iff every point is farther than ``margin`` from the hull of the others
    (checked through the facets of the full hull: a non-vertex lies on or below a facet)."""
    h = hull_facets(P, check=False)
    if len(h.on_hull) != len(P):
        return False
    # each vertex must stick out: distance from vertex to hull of others > margin
    P = np.asarray(P, float)
    for i in range(len(P)):
        others = np.delete(P, i, axis=0)
        if len(others) < 4:
            continue
        try:
            ho = hull_facets(others)
        except Exception:
            return False
        if ho.signed_dist(P[i])[0] <= margin:
            return False
    return True


# ---------------------------------------------------------------------------
# planar geometry
# ---------------------------------------------------------------------------


def plane_frame(normal):
    """Right-handed orthonormal (e1, e2, n) by Gram-Schmidt (no Kabsch, no rowan)."""
    n = np.asarray(normal, float)
    n = n / np.linalg.norm(n)
    k = int(np.argmin(np.abs(n)))
    t = np.zeros(3)
    t[k] = 1.0
    e1 = t - n * np.dot(t, n)
    e1 /= np.linalg.norm(e1)
    e2 = np.cross(n, e1)
    return e1, e2, n


def convex_cycle(V, normal):
    """The points of a planar set in convex position, listed counter-clockwise about ``normal`` (whatever order they came in)."""
    V = np.asarray(V, float)
    e1, e2, _ = plane_frame(normal)
    c = V.mean(0)
    ang = np.arctan2((V - c) @ e2, (V - c) @ e1)
    return V[np.argsort(ang, kind="stable")]


def star_listing(rng, n):
    """Index order that visits n points (given in boundary order) with a step k coprime to n, 2 <= k <= n-2: every corner of
    the listed cycle turns the same way although the cycle winds k times and crosses itself (a pentagram for n=5)."""
    ks = [k for k in range(2, n - 1) if math.gcd(k, n) == 1]
    if not ks:
        return None
    k = int(ks[int(rng.integers(len(ks)))])
    start = int(rng.integers(n))
    return [(start + k * t) % n for t in range(n)]


def poly2d_moments(xy):
    """Signed area A (CCW positive), centroid, and positive-measure second moments about the
    origin: (int y^2, int x^2, int xy).  Works for float arrays and lists of Fractions."""
    n = len(xy)
    exact = isinstance(xy[0][0], Fraction)
    zero = Fraction(0) if exact else 0.0
    s_a = s_cx = s_cy = s_yy = s_xx = s_xy = zero
    for i in range(n):
        x0, y0 = xy[i][0], xy[i][1]
        x1, y1 = xy[(i + 1) % n][0], xy[(i + 1) % n][1]
        a = x0 * y1 - x1 * y0
        s_a += a
        s_cx += (x0 + x1) * a
        s_cy += (y0 + y1) * a
        s_yy += a * (y0 * y0 + y0 * y1 + y1 * y1)
        s_xx += a * (x0 * x0 + x0 * x1 + x1 * x1)
        s_xy += a * (x0 * y1 + 2 * x0 * y0 + 2 * x1 * y1 + x1 * y0)
    area = s_a / 2
    sgn = 1 if area > 0 else -1
    cx, cy = s_cx / (6 * area), s_cy / (6 * area)
    return area, (cx, cy), (sgn * s_yy / 12, sgn * s_xx / 12, sgn * s_xy / 24)


def poly3d_exact(verts, normal):
    """Exact measures of a planar polygon embedded in 3-space.

    Returns dict: area (>0), signed_area (sign = orientation about ``normal``),
    perimeter, centroid (3,), polar moment about the centroidal normal axis J_c,
    inertia tensor about the origin as the statement defines it
    (J_c n n^T + A(|c|^2 I - c c^T)), in-plane second moments about the centroid."""
    verts = np.asarray(verts, float)
    e1, e2, n = plane_frame(normal)
    o = verts.mean(0)
    xy = np.column_stack(((verts - o) @ e1, (verts - o) @ e2))
    a, (cx, cy), (iyy, ixx, ixy) = poly2d_moments(xy)
    area = abs(a)
    cen = o + cx * e1 + cy * e2
    # second moments about the in-plane centroid
    jyy = iyy - area * cy * cy
    jxx = ixx - area * cx * cx
    jc = jyy + jxx
    per = float(np.linalg.norm(np.roll(verts, -1, axis=0) - verts, axis=1).sum())
    it = jc * np.outer(n, n) + area * (np.dot(cen, cen) * np.eye(3) - np.outer(cen, cen))
    return {"area": area, "signed_area": a, "perimeter": per, "centroid": cen, "polar_c": jc,
            "inertia": it, "frame": (e1, e2, n), "origin2d": o}


def _orient(ax, ay, bx, by, cx, cy):
    v = (bx - ax) * (cy - ay) - (by - ay) * (cx - ax)
    return (v > 0) - (v < 0)


def _on_seg(ax, ay, bx, by, px, py):
    return min(ax, bx) <= px <= max(ax, bx) and min(ay, by) <= py <= max(ay, by)


def segments_touch_exact(p1, p2, p3, p4):
    """Closed segments p1p2 and p3p4 share a point (exact rational arithmetic)."""
    ax, ay, bx, by = p1[0], p1[1], p2[0], p2[1]
    cx, cy, dx, dy = p3[0], p3[1], p4[0], p4[1]
    o1 = _orient(ax, ay, bx, by, cx, cy)
    o2 = _orient(ax, ay, bx, by, dx, dy)
    o3 = _orient(cx, cy, dx, dy, ax, ay)
    o4 = _orient(cx, cy, dx, dy, bx, by)
    if o1 != o2 and o3 != o4:
        return True
    if o1 == 0 and _on_seg(ax, ay, bx, by, cx, cy):
        return True
    if o2 == 0 and _on_seg(ax, ay, bx, by, dx, dy):
        return True
    if o3 == 0 and _on_seg(cx, cy, dx, dy, ax, ay):
        return True
    if o4 == 0 and _on_seg(cx, cy, dx, dy, bx, by):
        return True
    return False


def polygon_is_simple_exact(xy):
    """Exact certificate that the closed cycle xy (floats) is a simple polygon."""
    pts = [(Fraction(float(x)), Fraction(float(y))) for x, y in xy]
    n = len(pts)
    if n < 3 or len(set(pts)) != n:
        return False
    for i in range(n):
        a, b = pts[i], pts[(i + 1) % n]
        for j in range(i + 1, n):
            c, d = pts[j], pts[(j + 1) % n]
            if j == i + 1 or (i == 0 and j == n - 1):
                # adjacent edges share one endpoint; they must not overlap beyond it
                shared = b if j == i + 1 else a
                other1 = a if j == i + 1 else b
                other2 = d if j == i + 1 else c
                if _orient(*shared, *other1, *other2) == 0:
                    # collinear: fold-back if other2 on the same side as other1
                    dot = ((other1[0] - shared[0]) * (other2[0] - shared[0])
                           + (other1[1] - shared[1]) * (other2[1] - shared[1]))
                    if dot > 0:
                        return False
                continue
            if segments_touch_exact(a, b, c, d):
                return False
    return True


def polygon_crosses_exact(xy):
    """Exact certificate that two non-adjacent edges properly cross (transversal)."""
    pts = [(Fraction(float(x)), Fraction(float(y))) for x, y in xy]
    n = len(pts)
    for i in range(n):
        a, b = pts[i], pts[(i + 1) % n]
        for j in range(i + 2, n):
            if i == 0 and j == n - 1:
                continue
            c, d = pts[j], pts[(j + 1) % n]
            o1, o2 = _orient(*a, *b, *c), _orient(*a, *b, *d)
            o3, o4 = _orient(*c, *d, *a), _orient(*c, *d, *b)
            if o1 * o2 < 0 and o3 * o4 < 0:
                return True
    return False


def seg_dist(p, a, b):
    """Distance from points p (N,d) to segments a->b (M,d): (N,M)."""
    p = np.atleast_2d(p)[:, None, :]
    a = np.atleast_2d(a)[None, :, :]
    b = np.atleast_2d(b)[None, :, :]
    ab = b - a
    t = np.clip(((p - a) * ab).sum(-1) / np.maximum((ab * ab).sum(-1), 1e-300), 0, 1)
    return np.linalg.norm(p - (a + t[..., None] * ab), axis=-1)


def polygon_min_feature(xy):
    """Smallest distance between non-adjacent edges and smallest |sin(corner)|."""
    xy = np.asarray(xy, float)
    n = len(xy)
    nxt = np.roll(xy, -1, axis=0)
    dmin = np.inf
    for i in range(n):
        for j in range(i + 2, n):
            if i == 0 and j == n - 1:
                continue
            d = min(seg_dist(xy[[i]], xy[[j]], nxt[[j]])[0, 0], seg_dist(nxt[[i]], xy[[j]], nxt[[j]])[0, 0],
                    seg_dist(xy[[j]], xy[[i]], nxt[[i]])[0, 0], seg_dist(nxt[[j]], xy[[i]], nxt[[i]])[0, 0])
            dmin = min(dmin, d)
    e1 = xy - np.roll(xy, 1, axis=0)
    e2 = nxt - xy
    s = np.abs(e1[:, 0] * e2[:, 1] - e1[:, 1] * e2[:, 0]) / (np.linalg.norm(e1, axis=1) * np.linalg.norm(e2, axis=1))
    return float(dmin), float(s.min())


def point_in_polygon(xy, pts):
    """Crossing-number membership (half-open rule) and distance to the boundary.
    Returns (inside bool (N,), dist (N,)).  Only trust ``inside`` where dist > margin."""
    xy = np.asarray(xy, float)
    pts = np.atleast_2d(np.asarray(pts, float))
    a = xy
    b = np.roll(xy, -1, axis=0)
    px, py = pts[:, 0][:, None], pts[:, 1][:, None]
    ay, by = a[:, 1][None, :], b[:, 1][None, :]
    ax, bx = a[:, 0][None, :], b[:, 0][None, :]
    cond = (ay <= py) != (by <= py)
    with np.errstate(divide="ignore", invalid="ignore"):
        xint = ax + (py - ay) * (bx - ax) / (by - ay)
    cross = cond & (px < xint)
    inside = (cross.sum(axis=1) % 2) == 1
    dist = seg_dist(pts, a, b).min(axis=1)
    return inside, dist


def ray_polygon_distance(xy, origin, theta):
    """Distance from ``origin`` along direction theta to the boundary of polygon xy
    (largest hit, so for origin inside a convex/star polygon the unique hit)."""
    xy = np.asarray(xy, float)
    a = xy - origin
    b = np.roll(xy, -1, axis=0) - origin
    out = np.full(len(theta), np.nan)
    for k, th in enumerate(np.asarray(theta, float)):
        d = np.array([math.cos(th), math.sin(th)])
        e = b - a
        den = d[0] * e[:, 1] - d[1] * e[:, 0]
        with np.errstate(divide="ignore", invalid="ignore"):
            t = (a[:, 0] * e[:, 1] - a[:, 1] * e[:, 0]) / den
            u = (a[:, 0] * d[1] - a[:, 1] * d[0]) / den
        ok = (np.abs(den) > 0) & (t > 0) & (u >= -1e-12) & (u <= 1 + 1e-12)
        if ok.any():
            out[k] = t[ok].max()
    return out


# ---------------------------------------------------------------------------
# 3-D membership and distances
# ---------------------------------------------------------------------------


def tri_dist(pts, tris):
    """Euclidean distance from points (N,3) to triangles (T,3,3): (N,T)."""
    pts = np.atleast_2d(np.asarray(pts, float))
    tris = np.asarray(tris, float)
    a, b, c = tris[:, 0], tris[:, 1], tris[:, 2]
    n = np.cross(b - a, c - a)
    nn = np.linalg.norm(n, axis=1)
    n = n / np.maximum(nn, 1e-300)[:, None]
    # distance to plane, valid where the projection falls inside the triangle
    pa = pts[:, None, :] - a[None, :, :]
    h = (pa * n[None]).sum(-1)
    proj = pts[:, None, :] - h[..., None] * n[None]

    def side(u, v):
        return (np.cross(v[None] - u[None], proj - u[None]) * n[None]).sum(-1)

    inside = (side(a, b) >= 0) & (side(b, c) >= 0) & (side(c, a) >= 0)
    d_edges = np.minimum(np.minimum(seg_dist3(pts, a, b), seg_dist3(pts, b, c)), seg_dist3(pts, c, a))
    return np.where(inside, np.abs(h), d_edges)


def seg_dist3(p, a, b):
    p = p[:, None, :]
    ab = (b - a)[None]
    t = np.clip(((p - a[None]) * ab).sum(-1) / np.maximum((ab * ab).sum(-1), 1e-300), 0, 1)
    return np.linalg.norm(p - (a[None] + t[..., None] * ab), axis=-1)


def solid_angle_winding(pts, tris):
    """Generalised winding number of outward-oriented closed mesh around points
    (Van Oosterom & Strackee).  ~1 inside, ~0 outside, for points off the surface."""
    pts = np.atleast_2d(np.asarray(pts, float))
    tris = np.asarray(tris, float)
    a = tris[None, :, 0] - pts[:, None]
    b = tris[None, :, 1] - pts[:, None]
    c = tris[None, :, 2] - pts[:, None]
    la, lb, lc = np.linalg.norm(a, axis=-1), np.linalg.norm(b, axis=-1), np.linalg.norm(c, axis=-1)
    num = (a * np.cross(b, c)).sum(-1)
    den = la * lb * lc + (a * b).sum(-1) * lc + (b * c).sum(-1) * la + (c * a).sum(-1) * lb
    omega = 2 * np.arctan2(num, den)
    return omega.sum(axis=1) / (4 * np.pi)


# ---------------------------------------------------------------------------
# enclosing balls
# ---------------------------------------------------------------------------


def _ball_through(pts):
    """Smallest ball with all of pts (k<=4, affinely independent) on its boundary."""
    p0 = pts[0]
    A = pts[1:] - p0
    if len(A) == 0:
        return p0.copy(), 0.0
    G = A @ A.T
    rhs = 0.5 * np.einsum("ij,ij->i", A, A)
    try:
        lam = np.linalg.solve(G, rhs)
    except np.linalg.LinAlgError:
        return None
    c = p0 + lam @ A
    return c, float(np.linalg.norm(c - p0))


def min_enclosing_ball(P):
    """Exact-in-floats smallest enclosing ball by enumeration of support sets of size
    2,3,(4): the smallest ball-through-support that contains all points."""
    P = np.unique(np.asarray(P, float), axis=0)
    n, d = P.shape
    scale = float(np.ptp(P, axis=0).max()) or 1.0
    best = None
    for k in range(2, min(d + 1, n) + 1):
        for comb in itertools.combinations(range(n), k):
            res = _ball_through(P[list(comb)])
            if res is None:
                continue
            c, r = res
            if best is not None and r >= best[1]:
                continue
            if np.all(np.linalg.norm(P - c, axis=1) <= r + 1e-10 * scale):
                best = (c, r)
    return best


def min_enclosing_ball_fast(P, iters=None):
    """Welzl-style move-to-front (own implementation) for larger point sets."""
    P = np.unique(np.asarray(P, float), axis=0)
    scale = float(np.ptp(P, axis=0).max()) or 1.0
    eps = 1e-10 * scale
    d = P.shape[1]

    def inside(ball, p):
        return ball is not None and np.linalg.norm(p - ball[0]) <= ball[1] + eps

    def mb(pts, R):
        if len(R) == d + 1 or len(pts) == 0:
            if not R:
                return None
            return _ball_through(np.array(R))
        ball = mb_iter(pts, R)
        return ball

    def mb_iter(pts, R):
        ball = _ball_through(np.array(R)) if R else None
        if len(R) == d + 1:
            return ball
        for i in range(len(pts)):
            if not inside(ball, pts[i]):
                ball = mb_iter(pts[:i], R + [pts[i]])
        return ball

    rng = np.random.default_rng(12345)
    pts = P[rng.permutation(len(P))]
    return mb_iter(pts, [])


# ---------------------------------------------------------------------------
# Fourier transforms (mpmath, 500 digits; degenerate directions by 1e-80 separation)
# ---------------------------------------------------------------------------

_MP = None


def _mp():
    global _MP
    if _MP is None:
        import mpmath

        mpmath.mp.dps = 400
        _MP = mpmath
    return _MP


def _ddexp(z):
    """Divided difference of exp at nodes z (mpc list), coincident nodes separated by 1e-80."""
    mp = _mp()
    z = list(z)
    n = len(z)
    scale = max([abs(x) for x in z] + [mp.mpf(1)])
    eps = mp.mpf(10) ** -80 * scale
    for i in range(n):
        k = 0
        while any(abs(z[i] - z[j]) < eps / 2 for j in range(i)):
            k += 1
            z[i] += eps * (i + 1) * k
    ez = [mp.exp(x) for x in z]
    s = mp.mpc(0)
    for k in range(n):
        den = mp.mpc(1)
        for j in range(n):
            if j != k:
                den *= z[k] - z[j]
        s += ez[k] / den
    return s


def fourier_solid(q, tris, ref):
    """int exp(-i q.r) d^3r over the solid bounded by outward triangles (exact up to 1e-80)."""
    mp = _mp()
    q = [mp.mpf(float(x)) for x in q]
    o = [mp.mpf(float(x)) for x in ref]
    zo = mp.mpc(0, -1) * mp.fsum(q[k] * o[k] for k in range(3))
    cache = {}

    def node(v):
        key = (float(v[0]), float(v[1]), float(v[2]))
        if key not in cache:
            m = [mp.mpf(x) for x in key]
            cache[key] = (m, mp.mpc(0, -1) * mp.fsum(q[k] * m[k] for k in range(3)))
        return cache[key]

    tot = mp.mpc(0)
    for t in np.asarray(tris, float):
        (a, za), (b, zb), (c, zc) = node(t[0]), node(t[1]), node(t[2])
        u = [a[i] - o[i] for i in range(3)]
        v = [b[i] - o[i] for i in range(3)]
        w = [c[i] - o[i] for i in range(3)]
        v6 = (u[0] * (v[1] * w[2] - v[2] * w[1]) - u[1] * (v[0] * w[2] - v[2] * w[0])
              + u[2] * (v[0] * w[1] - v[1] * w[0]))
        tot += v6 * _ddexp([zo, za, zb, zc])
    return complex(tot)


def fourier_polygon(q, verts, normal):
    """int exp(-i q_par.r) dA over a planar polygon (positive measure whatever the
    orientation), q projected into the polygon's plane."""
    mp = _mp()
    verts = np.asarray(verts, float)
    e1, e2, n = plane_frame(normal)
    qv = np.asarray(q, float)
    qpar = qv - np.dot(qv, n) * n
    o = verts.mean(0)
    xy = np.column_stack(((verts - o) @ e1, (verts - o) @ e2))
    q2 = (mp.mpf(float(np.dot(qpar, e1))), mp.mpf(float(np.dot(qpar, e2))))
    zs = [mp.mpc(0, -1) * (q2[0] * mp.mpf(float(x)) + q2[1] * mp.mpf(float(y))) for x, y in xy]
    z0 = mp.mpc(0)
    tot = mp.mpc(0)
    sa = mp.mpf(0)
    for i in range(len(xy)):
        j = (i + 1) % len(xy)
        a2 = mp.mpf(float(xy[i][0])) * mp.mpf(float(xy[j][1])) - mp.mpf(float(xy[j][0])) * mp.mpf(float(xy[i][1]))
        sa += a2
        tot += a2 * _ddexp([z0, zs[i], zs[j]])
    if sa < 0:
        tot = -tot
    phase = mp.exp(mp.mpc(0, -1) * mp.mpf(float(np.dot(qpar, o))))
    return complex(tot * phase)


def fourier_box(q, lo, hi):
    mp = _mp()
    out = mp.mpc(1)
    for k in range(3):
        qq = mp.mpf(float(q[k]))
        l, h = mp.mpf(float(lo[k])), mp.mpf(float(hi[k]))
        if qq == 0:
            out *= h - l
        else:
            out *= (mp.exp(mp.mpc(0, -1) * qq * h) - mp.exp(mp.mpc(0, -1) * qq * l)) / (mp.mpc(0, -1) * qq)
    return complex(out)


def fourier_sphere(q, radius, center):
    mp = _mp()
    qn = mp.sqrt(mp.fsum(mp.mpf(float(x)) ** 2 for x in q))
    r = mp.mpf(float(radius))
    if qn == 0:
        f = mp.mpf(4) / 3 * mp.pi * r ** 3
    else:
        x = qn * r
        f = 4 * mp.pi * (mp.sin(x) - x * mp.cos(x)) / qn ** 3
    ph = mp.exp(mp.mpc(0, -1) * mp.fsum(mp.mpf(float(q[k])) * mp.mpf(float(center[k])) for k in range(3)))
    return complex(f * ph)


# ---------------------------------------------------------------------------
# special functions
# ---------------------------------------------------------------------------


def ellipse_perimeter(a, b):
    mp = _mp()
    a, b = mp.mpf(float(a)), mp.mpf(float(b))
    lo, hi = (a, b) if a <= b else (b, a)
    return float(4 * hi * mp.ellipe(1 - (lo / hi) ** 2))


def ellipse_perimeter_quad(a, b):
    mp = _mp()
    old = mp.mp.dps
    mp.mp.dps = 30
    try:
        a, b = mp.mpf(float(a)), mp.mpf(float(b))
        val = 4 * mp.quad(lambda t: mp.sqrt((a * mp.sin(t)) ** 2 + (b * mp.cos(t)) ** 2), [0, mp.pi / 4, mp.pi / 2])
        return float(val)
    finally:
        mp.mp.dps = old


def ellipsoid_area(a, b, c):
    """Surface area through Carlson's symmetric R_G (no sorting, no case split)."""
    mp = _mp()
    a, b, c = mp.mpf(float(a)), mp.mpf(float(b)), mp.mpf(float(c))
    return float(4 * mp.pi * mp.elliprg((a * b) ** 2, (b * c) ** 2, (a * c) ** 2))


# ---------------------------------------------------------------------------
# exact hull of integer points (no band, no rounding): for inputs nearer to degeneracy than any float oracle can judge
# ---------------------------------------------------------------------------

def hull_exact_int(Pint):
    """Facets of the convex hull of integer points, decided with Python integers.

    Returns (facets, normals_int) with each facet the sorted tuple of indices of the points on one supporting plane and
    ``normals_int`` its outward integer normal (not normalised), or raises DegenerateInput if the points are not all
    vertices / the facets do not close up.  O(n^4): meant for n <= 16."""
    P = [tuple(int(x) for x in p) for p in Pint]
    n = len(P)
    facets = {}
    for i, j, k in itertools.combinations(range(n), 3):
        a, b, c = P[i], P[j], P[k]
        u = (b[0] - a[0], b[1] - a[1], b[2] - a[2])
        v = (c[0] - a[0], c[1] - a[1], c[2] - a[2])
        nx, ny, nz = u[1] * v[2] - u[2] * v[1], u[2] * v[0] - u[0] * v[2], u[0] * v[1] - u[1] * v[0]
        if nx == 0 and ny == 0 and nz == 0:
            continue
        d0 = nx * a[0] + ny * a[1] + nz * a[2]
        pos = neg = False
        on = []
        for t, p in enumerate(P):
            d = nx * p[0] + ny * p[1] + nz * p[2] - d0
            if d > 0:
                pos = True
            elif d < 0:
                neg = True
            else:
                on.append(t)
            if pos and neg:
                break
        if pos and neg:
            continue
        key = tuple(on)
        if key not in facets:
            facets[key] = (-nx, -ny, -nz) if pos else (nx, ny, nz)
    fs = sorted(facets)
    edges = {}
    used = set()
    for f in fs:
        used.update(f)
    if len(used) != n:
        raise DegenerateInput("a point is not a vertex of the hull")
    return fs, [facets[f] for f in fs]


def floats_to_int(P):
    """Integer coordinates proportional to the float coordinates (every float is a dyadic rational): (Pint, shift)
    with P == Pint / 2^shift exactly."""
    fr = [[Fraction(float(x)) for x in p] for p in np.asarray(P, float)]
    shift = max(max(f.denominator.bit_length() - 1 for f in row) for row in fr)
    return [[int(f * (1 << shift)) for f in row] for row in fr], shift


def split_hull(P, band_hull, faces, max_n=80):
    """Resolve a disagreement between ``faces`` and the band oracle's facets that is only about rounding.

    A face that is planar in the caller's mind (a rotated lattice quadrilateral) is, after rounding to float64, a few ulp
    off its plane; the *exact* hull of the stored coordinates then has it in two or more pieces.  Merged (what the
    statement's parenthesis asks for) and in exact pieces (what its main clause asks for) are both right readings there,
    and so is anything in between.  Returns a Hull whose facets are ``faces`` if every face is a union of exact hull
    facets of one band facet and the faces partition every band facet; None otherwise (a genuine disagreement)."""
    P = np.asarray(P, float)
    if len(P) > max_n:
        return None
    Pint, _ = floats_to_int(P)
    try:
        exact, _ = hull_exact_int(Pint)
    except DegenerateInput:
        return None
    exact = [frozenset(f) for f in exact]
    bands = [frozenset(f) for f in band_hull.facets]
    sets = [frozenset(int(i) for i in f) for f in faces]
    if len(set(sets)) != len(sets):
        return None
    owner = {}
    for e in exact:
        inb = [b for b in bands if e <= b]
        if len(inb) != 1:
            return None
        ins = [k for k, st in enumerate(sets) if e <= st]
        if len(ins) != 1 or not sets[ins[0]] <= inb[0]:
            return None
        owner.setdefault(ins[0], []).append(e)
    if sorted(owner) != list(range(len(sets))):
        return None
    for k, es in owner.items():
        if frozenset().union(*es) != sets[k]:
            return None
    fl, nl = [], []
    for st in sets:
        b = [i for i, bb in enumerate(bands) if st <= bb][0]
        nf = np.asarray(band_hull.normals[b], float)
        fl.append(_order_facet(P, sorted(st), nf))
        nl.append(nf)
    return Hull(P, fl, np.array(nl), np.array([float(np.mean(P[f] @ n)) for f, n in zip(fl, nl)]))


def facet_area2_int(Pint, cyc):
    """4 * area^2 of the planar polygon with integer vertices listed in cyclic order (exact integer)."""
    P = [tuple(int(x) for x in Pint[i]) for i in cyc]
    sx = sy = sz = 0
    a = P[0]
    for i in range(1, len(P) - 1):
        u = (P[i][0] - a[0], P[i][1] - a[1], P[i][2] - a[2])
        v = (P[i + 1][0] - a[0], P[i + 1][1] - a[1], P[i + 1][2] - a[2])
        sx += u[1] * v[2] - u[2] * v[1]
        sy += u[2] * v[0] - u[0] * v[2]
        sz += u[0] * v[1] - u[1] * v[0]
    return sx * sx + sy * sy + sz * sz


def hull_from_exact(P, Pint):
    """Hull object (cycles CCW about the outward normal, float unit normals) from the exact facets of integer points."""
    P = np.asarray(P, float)
    facets, normals = hull_exact_int(Pint)
    fl, nl = [], []
    for f, N in zip(facets, normals):
        nf = np.array([float(x) for x in N]) / math.sqrt(float(N[0] * N[0] + N[1] * N[1] + N[2] * N[2]))
        fl.append(_order_facet(P, list(f), nf))
        nl.append(nf)
    return Hull(P, fl, np.array(nl), np.array([float(np.mean(P[f] @ n)) for f, n in zip(fl, nl)]))

"""Base shapes in general position (chiral, off-origin) for the reflection-driven checks
C03 / C08 / C16: name -> zero-argument constructor, per class."""

import itertools

import numpy as np

from . import gen, geom


def _rot(seed):
    return gen.random_rotation(np.random.default_rng(seed))


def convex_points(kind):
    rng = np.random.default_rng(4242)
    if kind == "chiral7":
        P = np.array([[1.0, 0.1, 0.0], [-0.6, 0.9, 0.15], [-0.5, -0.8, -0.1], [0.2, 0.3, 1.1], [0.1, -0.2, -0.9],
                      [0.9, 0.8, 0.5], [-0.9, 0.1, 0.7]])
        return P @ _rot(1).T + np.array([1.1, -0.7, 0.4])
    if kind == "box":       # cyclic, not tangential, quadrilateral facets
        P = np.array(list(itertools.product([-0.5, 0.5], repeat=3))) * [1.0, 1.7, 2.3]
        return P @ _rot(2).T + np.array([0.6, 1.4, -0.9])
    if kind == "tetra":     # tangential and cyclic
        P = np.array([[1, 1, 1], [1, -1, -1], [-1, 1, -1], [-1, -1, 1.0]]) * 0.8
        return P @ _rot(3).T + np.array([-1.2, 0.3, 0.8])
    if kind == "octa-skew":
        P = np.array([[1.2, 0, 0], [-0.9, 0.1, 0], [0, 1.1, 0.1], [0.1, -1.3, 0], [0, 0.2, 0.8], [0.1, 0, -1.0]])
        return P @ _rot(4).T + np.array([0.3, 0.2, 2.0])
    if kind == "prism5":
        th = np.linspace(0, 2 * np.pi, 5, endpoint=False)
        b = np.column_stack((np.cos(th), np.sin(th)))
        P = np.vstack((np.column_stack((b, np.zeros(5))), np.column_stack((b, np.full(5, 0.9)))))
        return P @ _rot(5).T + np.array([2.0, -1.0, 0.5])
    raise KeyError(kind)


def u_mesh():
    cells = gen.VOXEL_TEMPLATES["U"]
    V, faces = gen.voxel_mesh(cells)
    A = _rot(7) @ np.diag([0.8, 1.0, 1.3])
    return V @ A.T + np.array([0.7, -1.9, 1.1]), faces


def polygons(kind):
    if kind == "comb-ccw":
        xy = np.array([[0, -0.5], [2.3, -0.5], [2.3, 1.6], [1.7, 1.6], [1.7, 0.2], [0.9, 0.2], [0.9, 2.1], [0, 2.1]], float)
        return np.column_stack((xy + [0.7, 0.4], np.zeros(len(xy)))), None
    if kind == "star-cw-tilted":
        th = np.linspace(0, 2 * np.pi, 7, endpoint=False)
        r = np.array([1.0, 0.5, 0.9, 0.45, 1.1, 0.6, 0.8])
        xy = np.column_stack((r * np.cos(th), r * np.sin(th)))[::-1]
        V = np.column_stack((xy, np.zeros(7))) @ _rot(11).T + np.array([0.5, 1.2, -0.8])
        return V, None
    if kind == "pentagon-tilted":
        xy = np.array([[1.0, 0.0], [0.4, 1.1], [-0.8, 0.7], [-1.0, -0.5], [0.3, -0.9]])
        V = np.column_stack((xy, np.zeros(5))) @ _rot(12).T + np.array([-0.4, 0.9, 1.5])
        return V, None
    if kind == "rect-xy":          # cyclic, not tangential
        xy = np.array([[0, 0], [2.0, 0], [2.0, 1.0], [0, 1.0]]) + [0.8, -0.3]
        return np.column_stack((xy, np.zeros(4))), [0, 0, 1.0]
    if kind == "kite-xy":          # tangential
        xy = np.array([[0, -0.6], [0.9, 0], [0, 1.8], [-0.9, 0]]) + [1.5, 0.7]
        return np.column_stack((xy, np.zeros(4))), [0, 0, 1.0]
    if kind == "tri-xy":           # cyclic and tangential
        xy = np.array([[0, 0], [2.0, 0.2], [0.7, 1.4]]) + [-0.6, 0.5]
        return np.column_stack((xy, np.zeros(3))), [0, 0, 1.0]
    if kind == "quad-xy":
        xy = np.array([[0, 0], [1.6, 0.1], [1.9, 1.2], [0.3, 0.9]]) + [0.4, 0.6]
        return np.column_stack((xy, np.zeros(4))), [0, 0, 1.0]
    raise KeyError(kind)


def base_shapes(cs):
    """{class name: [(label, constructor)]}"""
    B = {}
    B["ConvexPolyhedron"] = [(k, (lambda k=k: cs.ConvexPolyhedron(convex_points(k)))) for k in ("chiral7", "box", "tetra", "octa-skew", "prism5")]

    def ph_from_convex(k, triangulate=False):
        P = convex_points(k)
        h = geom.hull_facets(P)
        faces = [list(f) for f in h.facets]
        if triangulate:
            faces = [list(t) for f in faces for t in geom.fan(f)]
            return cs.Polyhedron(P, faces)
        return cs.Polyhedron(P, faces, faces_are_convex=True)

    def ph_u():
        V, faces = u_mesh()
        return cs.Polyhedron(V, [list(f) for f in faces], faces_are_convex=True)

    B["Polyhedron"] = [("chiral7", lambda: ph_from_convex("chiral7")), ("U-voxel", ph_u), ("box-triangulated", lambda: ph_from_convex("box", True)),
                       ("tetra", lambda: ph_from_convex("tetra")), ("prism5", lambda: ph_from_convex("prism5"))]
    B["ConvexSpheropolyhedron"] = [(k, (lambda k=k, r=r: cs.ConvexSpheropolyhedron(convex_points(k), r)))
                                   for k, r in (("chiral7", 0.3), ("box", 0.05), ("tetra", 1.5))]

    def pg(kind, cls):
        V, n = polygons(kind)
        return cls(V, normal=n)

    B["Polygon"] = [(k, (lambda k=k: pg(k, cs.Polygon))) for k in ("comb-ccw", "star-cw-tilted", "pentagon-tilted", "rect-xy", "kite-xy", "tri-xy")]
    B["ConvexPolygon"] = [(k, (lambda k=k: pg(k, cs.ConvexPolygon))) for k in ("pentagon-tilted", "rect-xy", "kite-xy", "tri-xy", "quad-xy")]

    def spg(kind, r):
        V, n = polygons(kind)
        return cs.ConvexSpheropolygon(V, r, normal=n)

    B["ConvexSpheropolygon"] = [(f"{k}-r{r}", (lambda k=k, r=r: spg(k, r))) for k, r in (("quad-xy", 0.4), ("pentagon-tilted", 0.1), ("tri-xy", 2.0))]
    B["Circle"] = [("c1", lambda: cs.Circle(1.3, (0.7, -1.1, 0.0))), ("c2", lambda: cs.Circle(0.02, (5.0, 3.0, 1.0)))]
    B["Ellipse"] = [("e1", lambda: cs.Ellipse(1.3, 0.4, (0.7, -1.1, 0.0))), ("e2", lambda: cs.Ellipse(0.5, 2.5, (-3.0, 0.2, 0.0)))]
    B["Sphere"] = [("s1", lambda: cs.Sphere(1.3, (0.7, -1.1, 0.4))), ("s2", lambda: cs.Sphere(25.0, (-40.0, 3.0, 11.0)))]
    B["Ellipsoid"] = [("l1", lambda: cs.Ellipsoid(1.3, 0.4, 0.9, (0.7, -1.1, 0.4))), ("l2", lambda: cs.Ellipsoid(0.2, 2.5, 2.5, (3.0, 3.5, -1.0)))]
    return B


def zero_d_shapes(cs):
    """{class name: constructor} - the classes that keep scalar parameters, built with those parameters handed over as
    zero-dimensional arrays (a value picked out of an array with [()], np.asarray(x)): the shape then keeps an *array*, and
    any arithmetic the class does on "its number" may happen in place."""
    z = lambda x: np.array(float(x))  # noqa: E731
    return {"Circle": lambda: cs.Circle(z(1.3), (0.7, -1.1, 0.0)), "Sphere": lambda: cs.Sphere(z(1.3), (0.7, -1.1, 0.4)),
            "Ellipse": lambda: cs.Ellipse(z(1.3), z(0.4), (0.7, -1.1, 0.0)), "Ellipsoid": lambda: cs.Ellipsoid(z(1.3), z(0.4), z(0.9), (0.7, -1.1, 0.4)),
            "ConvexSpheropolygon": lambda: cs.ConvexSpheropolygon(polygons("quad-xy")[0], z(0.4), normal=polygons("quad-xy")[1]),
            "ConvexSpheropolyhedron": lambda: cs.ConvexSpheropolyhedron(convex_points("chiral7"), z(0.3))}


ZERO_D = "parameters-as-0d-arrays"


def with_zero_d(cs):
    """base_shapes plus, at the end of each list concerned, the zero-dimensional-parameter variant (label ZERO_D)."""
    B = {k: list(v) for k, v in base_shapes(cs).items()}
    for cname, ctor in zero_d_shapes(cs).items():
        if cname in B:
            B[cname].append((ZERO_D, ctor))
    return B

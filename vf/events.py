"""In-memory event log of one shard: counters, digests, samples, violations."""

import hashlib
import json
import math
from collections import Counter, defaultdict

import numpy as np

MAX_VIOL_PER_MECH = 6
MAX_SAMPLES = 6


def jsonable(x, depth=0):
    """Convert numpy-laden structures to plain JSON values (floats keep full repr)."""
    if depth > 12:
        return repr(x)
    if isinstance(x, (str, bool)) or x is None:
        return x
    if isinstance(x, (int, np.integer)):
        return int(x)
    if isinstance(x, (float, np.floating)):
        x = float(x)
        if math.isnan(x):
            return "nan"
        if math.isinf(x):
            return "inf" if x > 0 else "-inf"
        return x
    if isinstance(x, (complex, np.complexfloating)):
        return {"re": jsonable(x.real), "im": jsonable(x.imag)}
    if isinstance(x, np.bool_):
        return bool(x)
    if isinstance(x, np.ndarray):
        return jsonable(x.tolist(), depth + 1)
    if isinstance(x, dict):
        return {str(k): jsonable(v, depth + 1) for k, v in x.items()}
    if isinstance(x, (list, tuple, set, frozenset)):
        return [jsonable(v, depth + 1) for v in x]
    if hasattr(x, "numerator") and hasattr(x, "denominator"):
        return str(x)
    return repr(x)


def digest(*parts):
    h = hashlib.sha1()
    for p in parts:
        if isinstance(p, np.ndarray):
            h.update(np.ascontiguousarray(np.round(p.astype(float), 9) + 0.0).tobytes())
        else:
            h.update(json.dumps(jsonable(p), sort_keys=True).encode())
    return h.hexdigest()[:16]


class Recorder:
    """Collects what the monitors observed.  Monitors record; they never raise."""

    def __init__(self, prop, tier, seed, shard):
        self.prop, self.tier, self.seed, self.shard = prop, tier, seed, shard
        self.evals = Counter()          # monitor -> number of oracle comparisons
        self.viol_count = Counter()     # mechanism -> number of violations
        self.violations = defaultdict(list)  # mechanism -> bounded witnesses
        self.classes = Counter()        # input class histogram
        self.notes = Counter()          # misc counters (not judged, skipped, ...)
        self.nontrivial = set()
        self.samples = []
        self.ratios = {}                # observable -> max err/tol seen
        self.inconclusive = []          # reasons
        self.case = None                # current case index
        self.cases_run = 0
        self.lines = {}                 # anchor function -> (seen, total)

    # -- evaluations ------------------------------------------------------
    def ok(self, monitor, n=1):
        self.evals[monitor] += n

    def check(self, monitor, cond, mech, witness=None):
        """One oracle comparison by ``monitor``; a false ``cond`` is a violation."""
        self.evals[monitor] += 1
        if not cond:
            self.violation(monitor, mech, witness, counted=True)
        return bool(cond)

    def violation(self, monitor, mech, witness=None, counted=False):
        if not counted:
            self.evals[monitor] += 1
        self.viol_count[mech] += 1
        lst = self.violations[mech]
        if len(lst) < MAX_VIOL_PER_MECH:
            w = {"monitor": monitor, "mechanism": mech, "case": self.case,
                 "shard": self.shard, "seed": self.seed, "tier": self.tier}
            if witness is not None:
                w["witness"] = jsonable(witness() if callable(witness) else witness)
            lst.append(w)

    def close(self, monitor, got, want, tol, mech, witness=None, name=None):
        """Numerical comparison |got-want| <= tol (arrays: max abs).  NaN fails."""
        got_a = np.asarray(got, dtype=float) if not np.iscomplexobj(got) else np.asarray(got)
        want_a = np.asarray(want, dtype=float) if not np.iscomplexobj(want) else np.asarray(want)
        if got_a.shape != want_a.shape:
            ok, err = False, float("inf")
        else:
            d = np.abs(got_a - want_a)
            err = float(np.max(d)) if d.size else 0.0
            ok = bool(np.all(np.isfinite(got_a))) and err <= tol
        self.ratio(name or monitor, err, tol)
        if not ok:
            base = witness() if callable(witness) else (witness or {})
            w = dict(base)
            w.update({"got": got, "want": want, "tol": tol, "err": err})
            self.check(monitor, False, mech, w)
        else:
            self.evals[monitor] += 1
        return ok

    def ratio(self, name, err, tol):
        r = err / tol if tol > 0 else (0.0 if err == 0 else float("inf"))
        if not math.isfinite(r):
            r = 1e300
        if r > self.ratios.get(name, 0.0):
            self.ratios[name] = r

    # -- coverage ---------------------------------------------------------
    def cls(self, name, n=1):
        self.classes[name] += n

    def note(self, name, n=1):
        self.notes[name] += n

    def nontriv(self, *parts):
        self.nontrivial.add(digest(*parts))

    def sample(self, obj):
        if len(self.samples) < MAX_SAMPLES:
            self.samples.append(jsonable(obj))

    def inconc(self, reason):
        if reason not in self.inconclusive and len(self.inconclusive) < 20:
            self.inconclusive.append(reason)

    # -- serialisation ----------------------------------------------------
    def dump(self):
        return {
            "evals": dict(self.evals), "viol_count": dict(self.viol_count),
            "violations": dict(self.violations), "classes": dict(self.classes),
            "notes": dict(self.notes), "nontrivial": sorted(self.nontrivial),
            "samples": self.samples, "ratios": self.ratios,
            "inconclusive": self.inconclusive, "cases_run": self.cases_run,
            "lines": self.lines,
        }


def merge(reports):
    out = {"evals": Counter(), "viol_count": Counter(), "violations": defaultdict(list),
           "classes": Counter(), "notes": Counter(), "nontrivial": set(), "samples": [],
           "ratios": {}, "inconclusive": [], "cases_run": 0, "lines": {}}
    for r in reports:
        out["evals"].update(r["evals"])
        out["viol_count"].update(r["viol_count"])
        for k, v in r["violations"].items():
            room = MAX_VIOL_PER_MECH - len(out["violations"][k])
            out["violations"][k].extend(v[:max(room, 0)])
        out["classes"].update(r["classes"])
        out["notes"].update(r["notes"])
        out["nontrivial"].update(r["nontrivial"])
        for s in r["samples"]:
            if len(out["samples"]) < MAX_SAMPLES:
                out["samples"].append(s)
        for k, v in r["ratios"].items():
            out["ratios"][k] = max(out["ratios"].get(k, 0.0), v)
        for x in r["inconclusive"]:
            if x not in out["inconclusive"]:
                out["inconclusive"].append(x)
        out["cases_run"] += r["cases_run"]
        for fn, (seen, total) in r.get("lines", {}).items():
            s0 = set(out["lines"].get(fn, ([], total))[0])
            s0.update(seen)
            out["lines"][fn] = (sorted(s0), total)
    return out

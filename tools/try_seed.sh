#!/bin/bash
# usage: tools/try_seed.sh <worktree> <prop> [more props...]  -- demo with/without the change, then the checks against the worktree
# (the change is taken off and put back with `git apply`, never `git stash`: the stash is shared between worktrees)
wt=$1; shift
pf=$(mktemp /tmp/tryseed.XXXXXX.diff)
(cd $wt && git diff -- coxeter > $pf)
[ -s $pf ] || { echo "no change under coxeter/ in $wt"; exit 2; }
echo "--- demo WITH change:"; (cd $wt && PYTHONPATH=$wt timeout 900 /venv/bin/python demo.py 2>&1 | tail -2 | cut -c1-220; echo "exit=${PIPESTATUS[0]}")
(cd $wt && git apply -R $pf)
echo "--- demo WITHOUT change:"; (cd $wt && PYTHONPATH=$wt timeout 900 /venv/bin/python demo.py 2>&1 | tail -1 | cut -c1-220; echo "exit=${PIPESTATUS[0]}")
(cd $wt && git apply $pf) && rm -f $pf
for p in "$@"; do for sd in ${SEEDS:-0 1 2}; do
  VERIF_SEED=$sd VERIF_REPO_ROOT=$wt VERIF_NO_EVIDENCE=1 /venv/bin/python /verif/vcheck.py $p | grep -v "^KNOWN" | tail -3 | cut -c1-230
done; done

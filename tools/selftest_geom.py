"""Second opinions for the oracles themselves (closed forms vs. vf.geom)."""
import sys, os, itertools, time
sys.path.insert(0, os.path.dirname(os.path.dirname(os.path.abspath(__file__))))
from vf import bootstrap; bootstrap.ensure()
import numpy as np
from vf import geom
rng=np.random.default_rng(0)
# box
lo=np.array([0.3,0.2,0.1]); hi=lo+[1,2,0.5]
P=np.array(list(itertools.product(*zip(lo,hi))))
h=geom.hull_facets(P); assert len(h.facets)==6 and h.closed(), h.facets
V,c,I=geom.solid_exact(h.tris())
assert abs(V-1.0)<1e-12 and np.allclose(c,(lo+hi)/2)
# box inertia about origin
m=V; d=hi-lo; Ic=np.diag([d[1]**2+d[2]**2,d[0]**2+d[2]**2,d[0]**2+d[1]**2])*m/12
cc=(lo+hi)/2; Io=Ic+m*(cc@cc*np.eye(3)-np.outer(cc,cc))
assert np.allclose(I,Io,atol=1e-12),(I,Io)
Vf,cf,If=geom.solid_exact_fraction((P*10).round().astype(int).tolist(),h.facets)
assert abs(float(Vf)-1000)<1e-9
print("mean curv box", h.mean_curvature_integral(), np.pi*d.sum())  # sum L*pi/2 /... box: 4 edges each dir * ext pi/2 /2 = pi*sum(d)
assert abs(h.mean_curvature_integral()-np.pi*d.sum())<1e-12
# Fourier
for q in [[0,0,2.],[1e-9,1e-9,0],[0.3,-2,5.],[0,0,0.],[17,-11,23],[0,3,0]]:
    F=geom.fourier_solid(q,h.tris(),P.mean(0)+0.01); G=geom.fourier_box(q,lo,hi)
    assert abs(F-G)<1e-13,(q,F,G)
# polygon FT vs box face: rectangle in tilted plane
rect=np.array([[0,0,0],[2,0,0],[2,1,0],[0,1,0.]])+[0.5,0.25,0]
for q in [[0,0,1.],[1,0,0],[0.3,0.7,2],[0,0,0]]:
    F=geom.fourier_polygon(q,rect,[0,0,1]); F2=geom.fourier_polygon(q,rect[::-1],[0,0,1])
    G=geom.fourier_box([q[0],q[1],0],[0.5,0.25,0],[2.5,1.25,1])
    assert abs(F-G)<1e-13 and abs(F2-G)<1e-13,(q,F,G)
# sphere FT at q->0
print(geom.fourier_sphere([0,0,1e-6],1.0,[1,2,3]), 4/3*np.pi)
# polygon measures
sq=np.array([[1,1,0],[3,1,0],[3,2,0],[1,2,0.]])
r=geom.poly3d_exact(sq,[0,0,1]); assert abs(r['area']-2)<1e-14 and np.allclose(r['centroid'],[2,1.5,0]) and r['signed_area']>0
r2=geom.poly3d_exact(sq[::-1],[0,0,1]); assert r2['signed_area']<0 and np.allclose(r2['inertia'],r['inertia'])
# Jc for 2x1 rect = A(w^2+h^2)/12 = 2*5/12
assert abs(r['polar_c']-10/12)<1e-13
# simple tests
assert geom.polygon_is_simple_exact(sq[:,:2]); assert not geom.polygon_is_simple_exact([[0,0],[1,1],[1,0],[0,1]])
assert geom.polygon_crosses_exact([[0,0],[1,1],[1,0],[0,1]])
ins,dist=geom.point_in_polygon(sq[:,:2],[[2,1.5],[0,0],[3,1.5],[2,1]]); print(ins,dist)
# winding
cube=geom.hull_facets(np.array(list(itertools.product([0,1.],repeat=3))))
w=geom.solid_angle_winding([[.5,.5,.5],[2,2,2],[.5,.5,1.01],[.5,.5,.99]],cube.tris()); print(w)
print(geom.tri_dist([[.5,.5,2],[3,3,3],[.5,.5,.5]],cube.tris()).min(1))
# balls
for n in [5,12,25]:
    Q=rng.normal(size=(n,3)); b1=geom.min_enclosing_ball(Q); b2=geom.min_enclosing_ball_fast(Q)
    assert abs(b1[1]-b2[1])<1e-9,(b1,b2)
Q=rng.normal(size=(15,2)); b1=geom.min_enclosing_ball(Q); b2=geom.min_enclosing_ball_fast(Q); assert abs(b1[1]-b2[1])<1e-9
# special
print(geom.ellipse_perimeter(1,2), geom.ellipse_perimeter_quad(1,2), geom.ellipsoid_area(1,2,3), geom.ellipsoid_area(1,1,1)-4*np.pi)
t=time.time(); p=rng.normal(size=(30,3)); p/=np.linalg.norm(p,axis=1)[:,None]; hh=geom.hull_facets(p); print("30pts",time.time()-t,len(hh.facets),hh.closed())
t=time.time(); p=rng.normal(size=(80,3)); p/=np.linalg.norm(p,axis=1)[:,None]; hh=geom.hull_facets(p); print("80pts",time.time()-t,len(hh.facets),hh.closed())
print("in_convex_position", geom.in_convex_position(p[:12],1e-3))
print("OK")

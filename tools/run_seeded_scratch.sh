#!/bin/bash
# Like run_seeded.sh but never touches /repo: each patch is applied to a scratch copy of /repo's HEAD (outside /repo and
# /verif, removed afterwards) and the check runs against it through VERIF_REPO_ROOT.  For re-running old seeds while
# something else (a sweep) is using /repo.  usage: SEED_GLOB='*-r2-*' tools/run_seeded_scratch.sh
cd /verif
for d in seeded/${SEED_GLOB:-*}/; do
  id=$(basename $d)
  prop=$(/venv/bin/python -c "import json;m=json.load(open('$d/meta.json'));print((m.get('reported_by') or [m['breaks_property']])[0])")
  tmp=$(mktemp -d /tmp/seedrun.XXXXXX)
  git -C /repo archive HEAD | tar -x -C $tmp
  (cd $tmp && patch -p1 -s < /verif/${d}patch.diff) || { echo "$id: patch does not apply"; rm -rf $tmp; continue; }
  out=$(VERIF_REPO_ROOT=$tmp VERIF_NO_EVIDENCE=1 VERIF_SEED=${VERIF_SEED:-0} /venv/bin/python vcheck.py $prop --tier quick 2>&1); rc=$?
  rm -rf $tmp
  nv=$(echo "$out" | grep -c "^VIOLATION")
  echo "$id: check=$prop rc=$rc violation_lines=$nv"
done

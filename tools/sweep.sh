#!/bin/bash
# usage: tools/sweep.sh <tier> <seed> [seed...]   -- runs every check, prints one summary line each
cd "$(dirname "$0")/.."
tier=$1; shift
for sd in "$@"; do
  for p in C01 C02 C03 C04 C05 C06 C07 C08 C09 C10 C11 C12 C13 C14 C15 C16 C17 C18 C19 C20; do
    out=$(VERIF_SEED=$sd VERIF_NO_EVIDENCE=${NOEV:-1} /venv/bin/python vcheck.py $p --tier $tier 2>&1)
    rc=$?
    echo "rc=$rc $(echo "$out" | tail -1 | cut -c1-220)"
    if [ $rc -ne 0 ]; then echo "$out" | grep -E "^(VIOLATION|INCONCLUSIVE)" | cut -c1-300 | head -5; fi
  done
done

#!/bin/bash
# usage: tools/add_seed.sh <worktree> <seed-id> <property> "<needs>" "<what I ran / result>"
set -e
wt=$1; id=$2; prop=$3; needs=$4; ran=$5
d=/verif/seeded/$id; mkdir -p $d
(cd $wt && git diff -- coxeter > $d/patch.diff)
cp $wt/demo.py $d/demo.py
[ -f $wt/NOTES.md ] && cp $wt/NOTES.md $d/NOTES.md
/venv/bin/python - "$d" "$id" "$prop" "$needs" "$ran" <<'PY'
import json,sys
d,id_,prop,needs,ran=sys.argv[1:6]
json.dump({"id":id_,"breaks_property":prop,"needs_to_manifest":needs,"what_was_run":ran,
           "origin":"written by an independent sub-agent that saw only the property text and a scratch worktree (nothing from /verif)",
           "apply":"git -C /repo apply /verif/seeded/%s/patch.diff ; undo: git -C /repo checkout -- ."%id_},open(d+"/meta.json","w"),indent=1)
PY
git -C /repo worktree remove --force $wt
echo "saved $d"

#!/venv/bin/python
"""Mutation campaign: apply each deliberate property-breaking patch from
tools/mutants/mutants.json to a scratch copy of /repo/coxeter (outside /repo and /verif),
run the quick tier of the property it breaks through VERIF_REPO_ROOT, report whether the
check fired, and remove the copy.

usage: tools/mutate.py [--only ID[,ID]] [--prop Cxx] [--suite]   (--suite: also run the repo tests on the mutant)
"""
import argparse
import json
import os
import shutil
import subprocess
import sys
import tempfile

HERE = os.path.dirname(os.path.dirname(os.path.abspath(__file__)))
PY = "/venv/bin/python"


def main():
    ap = argparse.ArgumentParser()
    ap.add_argument("--only", default=None)
    ap.add_argument("--prop", default=None)
    ap.add_argument("--suite", action="store_true")
    ap.add_argument("--tier", default="quick")
    a = ap.parse_args()
    muts = json.load(open(os.path.join(HERE, "tools", "mutants", "mutants.json")))
    if a.only:
        muts = [m for m in muts if m["id"] in a.only.split(",")]
    if a.prop:
        muts = [m for m in muts if a.prop in m["props"]]
    results = []
    for m in muts:
        tmp = tempfile.mkdtemp(prefix="coxmut_")
        try:
            shutil.copytree("/repo/coxeter", os.path.join(tmp, "coxeter"))
            fn = os.path.join(tmp, m["file"])
            src = open(fn).read()
            if src.count(m["old"]) != 1:
                print(f"{m['id']}: SKIP (pattern occurs {src.count(m['old'])}x)")
                results.append((m["id"], "skip"))
                continue
            src = src.replace(m["old"], m["new"])
            bad_extra = False
            for o, n in m.get("extra", []):
                if src.count(o) != 1:
                    bad_extra = True
                src = src.replace(o, n)
            if bad_extra:
                print(f"{m['id']}: SKIP (extra pattern not unique)")
                results.append((m["id"], "skip"))
                continue
            open(fn, "w").write(src)
            env = dict(os.environ, VERIF_REPO_ROOT=tmp, VERIF_NO_EVIDENCE="1")
            for prop in m["props"]:
                r = subprocess.run([PY, os.path.join(HERE, "vcheck.py"), prop, "--tier", a.tier], env=env, cwd=HERE,
                                   capture_output=True, text=True)
                mechs = sorted({l.split("replay=")[1].split("/")[-1] for l in r.stdout.splitlines() if l.startswith("VIOLATION")})
                verdict = {0: "MISSED", 1: "caught", 2: "inconclusive"}.get(r.returncode, f"rc{r.returncode}")
                if verdict == "caught" and not mechs:
                    verdict = "check-error"
                print(f"{m['id']} [{prop}] {verdict}: {m['desc']}  {mechs[:3]}")
                if verdict != "caught":
                    print("   ", r.stdout.strip().splitlines()[-1][:300] if r.stdout.strip() else r.stderr[-300:])
                results.append((m["id"] + "/" + prop, verdict))
            if a.suite:
                shutil.copytree("/repo/tests", os.path.join(tmp, "tests"))
                r = subprocess.run([PY, "-m", "pytest", "-q", "-p", "no:cacheprovider", "-n", "16", "-x", "tests"], cwd=tmp,
                                   capture_output=True, text=True, env=dict(os.environ, PYTHONPATH=tmp))
                print("    suite:", r.stdout.strip().splitlines()[-1][:200])
        finally:
            shutil.rmtree(tmp, ignore_errors=True)
    caught = sum(1 for _, v in results if v == "caught")
    print(f"mutants caught {caught}/{len(results)}")
    if not a.only and not a.prop:
        with open(os.path.join(HERE, "tools", "mutants", "RESULTS.md"), "w") as f:
            f.write("# Mutation campaign (quick tier of the property each patch breaks)\n\n")
            f.write(f"caught {caught}/{len(results)}\n\n| mutant / check | verdict | change |\n|---|---|---|\n")
            desc = {m["id"]: m["desc"] for m in muts}
            for k, v in results:
                f.write(f"| {k} | {v} | {desc.get(k.split('/')[0], '')} |\n")


if __name__ == "__main__":
    main()

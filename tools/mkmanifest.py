#!/venv/bin/python
"""Regenerate /verif/MANIFEST.json from the table below and validate it."""
import json
import os
import sys

HERE = os.path.dirname(os.path.dirname(os.path.abspath(__file__)))
sys.path.insert(0, HERE)
from vf import bootstrap  # noqa: E402

bootstrap.ensure()

T = {
    "C01": ("runtime postconditions on ConvexPolyhedron getters vs. qhull-free facet oracle + signed-tetrahedron integrals (exact rationals on lattice input; integer-arithmetic facts for exactly representable needles, plates and nearly coplanar facets and solids 1e-12..4e-6 off a symmetric position, judged at 1e-12), on new objects and on objects with a public history of reads, resizes and moves",
            "4.C01"),
    "C02": ("runtime postconditions on Polyhedron getters vs. closed forms of voxel solids/extrusions and signed-tetrahedron integrals, near the origin and 100..3000 diameters away (judged by the accuracy law measured there), faces in seven index types, on new objects and on objects with a public history (resizes, moves, diagonalize_inertia, to_hoomd)", "4.C02"),
    "C03": ("class invariant evaluated after every mutating call: fingerprint of the mutated object == fingerprint of a freshly constructed one (also for a twin built from the same argument objects); exception-atomicity monitor; exhaustive depth-bounded operation sequences + random walks; solids already in their principal axes (six orders of the moments) under diagonalize_inertia",
            "4.C03"),
    "C04": ("runtime postconditions on Polygon getters vs. Gram-Schmidt-frame shoelace integrals (exact rationals on lattice polygons), on new objects and on objects with a public history of reads, resizes and moves", "4.C04"),
    "C05": ("runtime postcondition on is_inside of the 3-D classes vs. independent membership oracles with boundary-band exclusion; batch-vs-single relational check; integer, default and tuple centres with whole-number lattice queries; new objects and objects with a public history (reads, resizes, semi-axis/radius assignments, moves, reorientation)", "4.C05"),
    "C06": ("runtime postcondition on is_inside of the 2-D classes vs. crossing-number / quadratic-form oracles with boundary-band exclusion; batch-vs-single relational check; integer, default and tuple centres with whole-number lattice queries; (N,2) points on the trace of tilted polygons; new objects and objects with a public history", "4.C06"),
    "C07": ("structural postconditions on constructed ConvexPolyhedron / sorted+merged Polyhedron vs. qhull-free facet oracle (integer-arithmetic facets for exactly representable solids whose facets are 1e-11..1e-4 rad from coplanar or whose aspect is 2^10..2^20); edge list / count / Euler relation also on the general Polyhedron (faces in seven index types) after sort_faces and merge_faces; faces planar only up to rounding resolved by the exact integer hull; re-judged after public histories", "4.C07"),
    "C08": ("before/after monitor around every reflected property setter: read-back, least-squares similarity fit, refusal of bad targets; bases of unit size, in nano/mega units and with 0-d array parameters", "4.C08"),
    "C09": ("relational monitor over recorded executions: queries on g(input) vs. g applied to queries on input", "4.C09"),
    "C10": ("runtime postconditions on getters of Circle/Ellipse/Sphere/Ellipsoid vs. closed-form integrals and mpmath (Carlson R_G, E(m), quadrature), centred moments judged relative to themselves, on fresh objects and across set-then-read histories", "4.C10"),
    "C11": ("runtime postconditions on spheropolytope and ConvexPolyhedron curvature getters vs. Steiner formulas evaluated on oracle A,P,V,S,M of the current core, explicit normals of any length on either side, on fresh objects and across read-change-read histories (own and core setters, diagonalize_inertia, to_hoomd)", "4.C11"),
    "C12": ("runtime postcondition on compute_form_factor_amplitude vs. 400-digit mpmath simplex Fourier transforms; relational symmetry/phase/batch checks; evaluate-resize/move-evaluate histories; integer wave vectors, memory layouts, all-special batches with a density, spheres in extreme units", "4.C12"),
    "C13": ("runtime postconditions on the ball properties vs. brute-force smallest enclosing ball, exact centroid and face/edge distances; existence by construction; several global RNG states; axis-aligned balanced shapes without point symmetry; new objects and objects with a public history", "4.C13"),
    "C14": ("runtime postcondition on distance_to_surface vs. ray/boundary intersection oracle; float, integer, list and tuple angle arguments; argument-unchanged monitor; integer, default and tuple centres; new objects and objects with a public history", "4.C14"),
    "C15": ("constructor outcome monitor vs. exact validity classification (incl. star-step cycles and listings); alias finder over the object graph; malformed arguments probed in a child process", "4.C15"),
    "C16": ("before/after state monitor around every reflected query (alone, repeated, every ordered pair, and after the shape was moved/resized since its arrays were handed out), argument and handed-out array snapshots; shapes whose scalar parameters are 0-d arrays", "4.C16"),
    "C17": ("postcondition on family get_shape/make_vertices vs. independent half-space intersection oracle; every admissible n; integer-typed parameters in five call forms; get - caller mutates result - get again histories", "4.C17"),
    "C18": ("exhaustive enumeration of all tabulated entries under monitors vs. textbook reference table; interleaved/resumed iteration histories; get - mutate - get again; names of one family asked of every other family before and after the owner was asked; unknown names wrapped in mark-up characters", "4.C18"),
    "C19": ("round-trip monitors on gsd_shape_spec/from_gsd_type_shapes, repr/eval, to_json, to_hoomd, each taken up to three times from the same object, with public setters applied between the rounds; to_hoomd vertices must be the shape's own minus its centroid", "4.C19"),
    "C20": ("independent strict parsers observing files written by coxeter.io / Polyhedron.save, for new shapes (faces in seven index types), under changed process-wide NumPy print options, and for shapes exported after a public history", "4.C20"),
}

NOTE = ("Held on the executions the workload produced (counts in the evidence file), never 'verified'. Trusted base: "
        "numpy arithmetic, fractions, mpmath, and the harness's own oracles in vf/geom.py (self-tested against closed forms "
        "by tools/selftest_geom.py); inputs nearer to a decision boundary than the stated margins are not judged.")


def main():
    props = [json.loads(l)["id"] for l in open(os.path.join(HERE, "properties.jsonl"))]
    na_reasons = {}
    p = os.path.join(HERE, "tools", "not_applicable.json")
    if os.path.exists(p):
        na_reasons = json.load(open(p))
    checks, na = [], []
    for pid in props:
        built = os.path.exists(os.path.join(HERE, "vf", "checks", pid.lower() + ".py")) and pid not in na_reasons
        if not built:
            na.append({"property_id": pid, "reason": na_reasons.get(pid, "check not built yet (framework under construction)")})
            continue
        tech, ref = T[pid]
        checks.append({
            "property_id": pid,
            "quick_cmd": f"/venv/bin/python vcheck.py {pid} --tier quick",
            "thorough_cmd": f"/venv/bin/python vcheck.py {pid} --tier thorough",
            "evidence_file": f"/verif/evidence/{pid}.json",
            "replay_cmd_template": f"/venv/bin/python vcheck.py {pid} --replay {{path}}",
            "engine": "vf",
            "level_claimed": {"category": "exploration",
                              "text": "Runtime monitoring: an oracle attached to the real functions observes every execution a "
                                      "hostile, seeded workload produces; " + tech + ".",
                              "design_ref": "DESIGN.md §" + ref},
            "level_note": NOTE,
            "technique": "runtime monitoring: " + tech,
        })
    m = {
        "version": 1,
        "setup_cmd": "/venv/bin/python -m vf.bootstrap",
        "hooks": {
            "guard": "COXETER_VERIF",
            "enable": "none needed: monitors (wrappers around the real properties/methods, sys.monitoring line observers) are attached "
                      "from /verif at run time to the classes imported from /repo's working tree; /repo contains no hook code",
            "baseline_off_cmd": "cd /repo && /venv/bin/python -m pytest -ra -q -p no:cacheprovider --timeout=900 --continue-on-collection-errors",
            "source_commits": [],
            "add_only": True,
        },
        "engines": [{"name": "vf", "path": "/verif/vf", "serves_properties": [c["property_id"] for c in checks],
                     "kind_free_text": "Python runtime-monitoring framework: sharded seeded workloads, wrappers on real members, "
                                       "independent oracles, event recorder, known-finding classifier"}],
        "checks": checks,
        "not_applicable": na,
        "notes": "Exit codes: 0 held on observed, 1 VIOLATION (unlisted), 2 INCONCLUSIVE (never folded into the others). "
                 "known_findings.json lists genuine defects by mechanism; they print KNOWN-FINDING lines.",
    }
    import jsonschema

    jsonschema.validate(m, json.load(open("/root/.vp/MANIFEST.schema.json")))
    with open(os.path.join(HERE, "MANIFEST.json"), "w") as f:
        json.dump(m, f, indent=1)
    print("MANIFEST.json:", len(checks), "checks,", len(na), "not_applicable")


if __name__ == "__main__":
    main()

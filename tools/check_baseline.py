#!/venv/bin/python
"""Compare a junit xml of the repository suite with BASELINE.json's stable_pass list."""
import json, sys, xml.etree.ElementTree as ET
junit = sys.argv[1] if len(sys.argv) > 1 else "/tmp/baseline_junit.xml"
base = json.load(open("/root/.vp/BASELINE.json"))
res = {}
for tc in ET.parse(junit).getroot().iter("testcase"):
    tid = f"{tc.get('classname')}::{tc.get('name')}"
    bad = any(ch.tag in ("failure", "error") for ch in tc)
    skipped = any(ch.tag == "skipped" for ch in tc)
    res[tid] = "fail" if bad else ("skip" if skipped else "pass")
missing = [t for t in base["stable_pass"] if t not in res]
failed = [t for t in base["stable_pass"] if res.get(t) == "fail"]
skipped = [t for t in base["stable_pass"] if res.get(t) == "skip"]
print(f"stable_pass={len(base['stable_pass'])} passed={sum(1 for t in base['stable_pass'] if res.get(t)=='pass')} failed={len(failed)} missing={len(missing)} skipped={len(skipped)}")
for t in failed[:20] + missing[:20]:
    print("  PROBLEM", t)
sys.exit(1 if failed or missing else 0)

#!/bin/bash
# For every /verif/seeded/<id>: apply patch to /repo, run the demo and the quick check of the property it breaks,
# undo the patch straight afterwards.  Writes seeded/<id>/result.txt and prints one line per seed.
cd /verif
if [ -n "$(git -C /repo status --porcelain)" ]; then echo "/repo is not clean"; exit 2; fi
for d in seeded/${SEED_GLOB:-*}/; do
  id=$(basename $d)
  prop=$(/venv/bin/python -c "import json;m=json.load(open('$d/meta.json'));print((m.get('reported_by') or [m['breaks_property']])[0])")
  git -C /repo apply /verif/${d}patch.diff || { echo "$id: patch does not apply"; continue; }
  demo=$(cd /repo && PYTHONPATH=/repo timeout 600 /venv/bin/python /verif/$d/demo.py >/dev/null 2>&1; echo $?)
  out=$(VERIF_NO_EVIDENCE=1 /venv/bin/python vcheck.py $prop --tier quick 2>&1); rc=$?
  git -C /repo checkout -- .
  demo0=$(cd /repo && PYTHONPATH=/repo timeout 600 /venv/bin/python /verif/$d/demo.py >/dev/null 2>&1; echo $?)
  nv=$(echo "$out" | grep -c "^VIOLATION")
  first=$(echo "$out" | grep "^VIOLATION" | head -3 | sed 's/.*replays\///' | tr '\n' ' ')
  echo "$id: check=$prop rc=$rc violation_lines=$nv demo_with_patch_exit=$demo demo_without_exit=$demo0 :: $first" | tee $d/result.txt
done
git -C /repo status --porcelain | head -3

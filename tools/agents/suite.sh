#!/bin/bash
# usage: suite.sh <id>...   runs the repository's tests in each worktree; reruns failures serially (load flakes)
for id in "$@"; do
  wt=/tmp/wt/${ROUND:-r3}-$id
  out=/tmp/wt/suite-${ROUND:-r3}-$id.txt
  (cd $wt && PYTHONPATH=$wt /venv/bin/python -m pytest -q -p no:cacheprovider -n ${NPROC:-12} --timeout=900 tests > $out 2>&1)
  grep '^FAILED' $out | sed 's/^FAILED //; s/ - .*//' | sort -u > $out.failed
  if [ -s $out.failed ]; then
    (cd $wt && PYTHONPATH=$wt xargs -d '\n' -a $out.failed /venv/bin/python -m pytest -q -p no:cacheprovider --timeout=900 > $out.rerun 2>&1)
    echo "$id: first: $(tail -1 $out | cut -c1-100) | rerun of failures: $(tail -1 $out.rerun | cut -c1-100)"
  else
    echo "$id: $(tail -1 $out | cut -c1-120)"
  fi
done

#!/venv/bin/python
"""Automatic mutation campaign over the functions the properties are anchored in.

For every function named in a check's ANCHORS, enumerate small syntactic changes (operator,
comparison, constant, index, min/max, copy removal, statement deletion ...), sample a few per
function, apply each to a scratch copy of /repo/coxeter (outside /repo and /verif; removed
afterwards), and run the quick tier of every property anchored in that function through
VERIF_REPO_ROOT.  A mutant no check reports is then run against the repository's own tests:
"survives the tests too" is the interesting class (equivalent change, or a weak spot of the checks);
these are triaged by hand in tools/mutants/AUTO_TRIAGE.md.

usage: tools/automutate.py [--per-func 2] [--seed 0] [--only-prop Cxx] [--limit N] [--out tools/mutants/auto_results.json]
Nothing here feeds the exit code of a registered check.
"""
import argparse
import ast
import copy
import importlib
import json
import os
import random
import re
import shutil
import subprocess
import sys
import tempfile
import time

HERE = os.path.dirname(os.path.dirname(os.path.abspath(__file__)))
sys.path.insert(0, HERE)
PY = "/venv/bin/python"
REPO = os.environ.get("VERIF_REPO_ROOT", "/repo")

SWAP_CALL = {"min": "max", "max": "min", "argmin": "argmax", "argmax": "argmin", "sin": "cos", "cos": "sin",
             "floor": "ceil", "ceil": "floor", "all": "any", "any": "all", "array": "asarray", "sum": "prod",
             "arctan2": "arctan2-swap", "cross": "cross-swap", "isclose": "isclose-eq", "allclose": "allclose-eq",
             "abs": "abs-drop", "copy": "copy-drop", "sqrt": "sqrt-drop", "sort": "sort-drop", "squeeze": "squeeze-drop"}


def anchors():
    """{(module, qualname): [props]} from the checks' ANCHORS."""
    out = {}
    for n in range(1, 21):
        mod = importlib.import_module(f"vf.checks.c{n:02d}")
        for a in getattr(mod, "ANCHORS", []):
            m, q = a.split(":")
            out.setdefault((m, q), []).append(f"C{n:02d}")
    return out


def find_func(tree, qual):
    """All definitions of the anchored function (getter and setter of a property share the name)."""
    parts = qual.split(".")
    parent = tree
    for p in parts[:-1]:
        parent = next((ch for ch in parent.body if isinstance(ch, ast.ClassDef) and ch.name == p), None)
        if parent is None:
            return []
    return [ch for ch in parent.body if isinstance(ch, (ast.FunctionDef, ast.ClassDef)) and ch.name == parts[-1]]


class Sites(ast.NodeVisitor):
    """Enumerate (description, mutator) pairs; the mutator edits the node in place."""

    def __init__(self):
        self.sites = []

    def add(self, node, desc, fn):
        self.sites.append((getattr(node, "lineno", 0), desc, node, fn))

    def visit_BinOp(self, n):
        sw = {ast.Add: ast.Sub, ast.Sub: ast.Add, ast.Mult: ast.Div, ast.Div: ast.Mult}
        for a, b in sw.items():
            if isinstance(n.op, a):
                self.add(n, f"{a.__name__}->{b.__name__}", lambda n=n, b=b: setattr(n, "op", b()))
        self.generic_visit(n)

    def visit_AugAssign(self, n):
        sw = {ast.Add: ast.Sub, ast.Sub: ast.Add, ast.Mult: ast.Div, ast.Div: ast.Mult}
        for a, b in sw.items():
            if isinstance(n.op, a):
                self.add(n, f"aug {a.__name__}->{b.__name__}", lambda n=n, b=b: setattr(n, "op", b()))
        self.generic_visit(n)

    def visit_Compare(self, n):
        sw = {ast.Lt: ast.LtE, ast.LtE: ast.Lt, ast.Gt: ast.GtE, ast.GtE: ast.Gt, ast.Eq: ast.NotEq, ast.NotEq: ast.Eq}
        flip = {ast.Lt: ast.Gt, ast.Gt: ast.Lt, ast.LtE: ast.GtE, ast.GtE: ast.LtE}
        for i, op in enumerate(n.ops):
            for a, b in sw.items():
                if isinstance(op, a):
                    self.add(n, f"{a.__name__}->{b.__name__}", lambda n=n, i=i, b=b: n.ops.__setitem__(i, b()))
            for a, b in flip.items():
                if isinstance(op, a):
                    self.add(n, f"{a.__name__}->{b.__name__}", lambda n=n, i=i, b=b: n.ops.__setitem__(i, b()))
        self.generic_visit(n)

    def visit_BoolOp(self, n):
        b = ast.Or if isinstance(n.op, ast.And) else ast.And
        self.add(n, f"{type(n.op).__name__}->{b.__name__}", lambda n=n, b=b: setattr(n, "op", b()))
        self.generic_visit(n)

    def visit_UnaryOp(self, n):
        if isinstance(n.op, ast.USub) and not isinstance(n.operand, ast.Constant):
            self.add(n, "drop unary minus", lambda n=n: setattr(n, "op", ast.UAdd()))
        if isinstance(n.op, ast.Not):
            self.add(n, "drop not", lambda n=n: _replace_not(n))
        self.generic_visit(n)

    def visit_Constant(self, n):
        v = n.value
        if isinstance(v, bool) or not isinstance(v, (int, float)):
            return
        if isinstance(v, int):
            for w in ({0: [1], 1: [0, 2], 2: [1, 3], 3: [2, 4]}.get(v, [v + 1, v - 1])):
                self.add(n, f"const {v}->{w}", lambda n=n, w=w: setattr(n, "value", w))
        else:
            if 0 < abs(v) < 1e-3:
                for w in (v * 1e4, v * 1e-4):
                    self.add(n, f"tol {v}->{w:g}", lambda n=n, w=w: setattr(n, "value", w))
            else:
                for w in (v * 2, v / 2, v + 1):
                    self.add(n, f"const {v}->{w:g}", lambda n=n, w=w: setattr(n, "value", w))

    def visit_Subscript(self, n):
        s = n.slice
        if isinstance(s, ast.Constant) and isinstance(s.value, int):
            pass      # handled by visit_Constant through generic_visit
        self.generic_visit(n)

    def visit_Call(self, n):
        name = n.func.attr if isinstance(n.func, ast.Attribute) else (n.func.id if isinstance(n.func, ast.Name) else None)
        if name in SWAP_CALL:
            how = SWAP_CALL[name]
            if how.endswith("-swap") and len(n.args) >= 2:
                self.add(n, f"swap args of {name}", lambda n=n: n.args.__setitem__(slice(0, 2), [n.args[1], n.args[0]]))
            elif how.endswith("-eq") and len(n.args) >= 2:
                self.add(n, f"{name}: tolerances tightened to 0", lambda n=n: n.keywords.extend(
                    [ast.keyword("rtol", ast.Constant(0.0)), ast.keyword("atol", ast.Constant(0.0))])
                    if not any(k.arg in ("rtol", "atol") for k in n.keywords) else None)
                self.add(n, f"{name}: tolerances loosened to 1e-3", lambda n=n: _set_tol(n, 1e-3))
            elif how.endswith("-drop"):
                if name == "copy" and isinstance(n.func, ast.Attribute) and not n.args:
                    self.add(n, "drop .copy()", lambda n=n: _become(n, n.func.value))
                elif name in ("abs", "sqrt", "squeeze") and len(n.args) == 1:
                    self.add(n, f"drop {name}()", lambda n=n: _become(n, n.args[0]))
            elif not how.endswith(("-swap", "-eq", "-drop")):
                if isinstance(n.func, ast.Attribute):
                    self.add(n, f"{name}->{how}", lambda n=n, how=how: setattr(n.func, "attr", how))
                elif isinstance(n.func, ast.Name) and name in ("min", "max", "all", "any", "sum", "abs"):
                    if how in ("min", "max", "all", "any"):
                        self.add(n, f"{name}->{how}", lambda n=n, how=how: setattr(n.func, "id", how))
        for k in n.keywords:
            if k.arg == "axis" and isinstance(k.value, ast.Constant) and k.value.value in (0, 1, -1):
                w = {0: 1, 1: 0, -1: 0}[k.value.value]
                self.add(n, f"axis {k.value.value}->{w}", lambda k=k, w=w: setattr(k, "value", ast.Constant(w)))
        self.generic_visit(n)

    def visit_If(self, n):
        self.add(n, "negate if-condition", lambda n=n: setattr(n, "test", ast.UnaryOp(ast.Not(), n.test)))
        self.generic_visit(n)

    def visit_Assign(self, n):
        tgt = n.targets[0]
        if isinstance(tgt, ast.Attribute) or isinstance(tgt, ast.Subscript):
            self.add(n, f"delete statement `{ast.unparse(n)[:50]}`", lambda n=n: _delete(n))
        self.generic_visit(n)

    def visit_Expr(self, n):
        if isinstance(n.value, ast.Call):
            self.add(n, f"delete statement `{ast.unparse(n)[:50]}`", lambda n=n: _delete(n))
        self.generic_visit(n)


def _replace_not(n):
    _become(n, n.operand)


def _become(n, other):
    """Turn node n into a copy of `other` in place."""
    n.__class__ = other.__class__
    n.__dict__.clear()
    n.__dict__.update(copy.deepcopy(other).__dict__)


def _delete(n):
    _become(n, ast.Pass())


def _set_tol(n, v):
    n.keywords = [k for k in n.keywords if k.arg not in ("rtol", "atol")]
    n.keywords.extend([ast.keyword("rtol", ast.Constant(v)), ast.keyword("atol", ast.Constant(v))])


def enumerate_mutants(per_func, rng, only_prop=None):
    anc = anchors()
    muts = []
    for (mod, qual), props in sorted(anc.items()):
        if only_prop and only_prop not in props:
            continue
        path = os.path.join(REPO, mod.replace(".", "/") + ".py")
        if not os.path.exists(path):
            continue
        src = open(path).read()
        tree = ast.parse(src)
        funcs = find_func(tree, qual)
        if not funcs:
            continue
        v = Sites()
        for f in funcs:
            for st in f.body:
                # skip the docstring
                if isinstance(st, ast.Expr) and isinstance(getattr(st, "value", None), ast.Constant) and isinstance(st.value.value, str):
                    continue
                v.visit(st)
        n = len(v.sites)
        # round-robin over the kinds of change, so that constants (half of all sites) do not crowd out the rest
        bykind = {}
        for k in range(n):
            bykind.setdefault(v.sites[k][1].split(" ")[0], []).append(k)
        kinds = sorted(bykind)
        rng.shuffle(kinds)
        for ks in bykind.values():
            rng.shuffle(ks)
        idx = []
        while len(idx) < min(per_func, n):
            for kd in kinds:
                if bykind[kd] and len(idx) < per_func:
                    idx.append(bykind[kd].pop())
        for k in idx[:per_func]:
            muts.append(dict(module=mod, qual=qual, props=props, site=k, nsites=n,
                             line=v.sites[k][0], desc=v.sites[k][1]))
    return muts


def apply_mutant(m, root):
    path = os.path.join(root, m["module"].replace(".", "/") + ".py")
    tree = ast.parse(open(os.path.join(REPO, m["module"].replace(".", "/") + ".py")).read())
    funcs = find_func(tree, m["qual"])
    v = Sites()
    for f in funcs:
        for st in f.body:
            if isinstance(st, ast.Expr) and isinstance(getattr(st, "value", None), ast.Constant) and isinstance(st.value.value, str):
                continue
            v.visit(st)
    line, desc, node, fn = v.sites[m["site"]]
    assert desc == m["desc"], (desc, m["desc"])
    before = ast.unparse(funcs[0] if len(funcs) == 1 else ast.Module(funcs, []))
    fn()
    ast.fix_missing_locations(tree)
    after = ast.unparse(funcs[0] if len(funcs) == 1 else ast.Module(funcs, []))
    if before == after:
        return False
    open(path, "w").write(ast.unparse(tree) + "\n")
    return True


def run_checks(m, root, tier="quick", seed="0"):
    env = dict(os.environ, VERIF_REPO_ROOT=root, VERIF_NO_EVIDENCE="1", VERIF_SEED=seed, PYTHONHASHSEED="0")
    res = {}
    for prop in m["props"]:
        try:
            r = subprocess.run([PY, os.path.join(HERE, "vcheck.py"), prop, "--tier", tier], env=env, cwd=HERE,
                               capture_output=True, text=True, timeout=1500)
        except subprocess.TimeoutExpired:
            res[prop] = ("timeout", [])
            continue
        mechs = sorted({l.split("replay=")[1].split("/")[-1][:90] for l in r.stdout.splitlines() if l.startswith("VIOLATION")})
        verdict = {0: "MISSED", 1: "caught", 2: "inconclusive"}.get(r.returncode, f"rc{r.returncode}")
        if verdict == "caught" and not mechs:
            verdict = "check-error"
        res[prop] = (verdict, mechs[:3])
        if verdict == "caught":
            break
    return res


def run_suite(root):
    shutil.copytree(os.path.join(REPO, "tests"), os.path.join(root, "tests"))
    for f in ("pyproject.toml", "setup.cfg", "conftest.py", "pytest.ini", "tox.ini"):
        if os.path.exists(os.path.join(REPO, f)):
            shutil.copy(os.path.join(REPO, f), root)
    try:
        r = subprocess.run([PY, "-m", "pytest", "-q", "-p", "no:cacheprovider", "-n", "14", "-x", "tests"], cwd=root,
                           capture_output=True, text=True, env=dict(os.environ, PYTHONPATH=root), timeout=1500)
    except subprocess.TimeoutExpired:
        return "timeout"
    last = r.stdout.strip().splitlines()[-1][:160] if r.stdout.strip() else r.stderr[-160:]
    failed = [l for l in r.stdout.splitlines() if l.startswith("FAILED")][:2]
    return last + (" | " + "; ".join(f[:120] for f in failed) if failed else "")


def make_base():
    global REPO
    base = tempfile.mkdtemp(prefix="coxauto_base_")
    subprocess.run(f"git -C {REPO} archive HEAD | tar -x -C {base}", shell=True, check=True)
    REPO = base
    import atexit
    atexit.register(shutil.rmtree, base, ignore_errors=True)


def retriage(a):
    """Second pass: a mutant the checks of its own anchors missed is shown to all the other checks."""
    make_base()
    results = json.load(open(a.out))
    allp = [f"C{n:02d}" for n in range(1, 21)]
    for m in results:
        if m["outcome"] != "MISSED" or "others" in m:
            continue
        if a.survivors_only and re.search(r"\b\d+ failed", m.get("suite", "")):
            continue
        tmp = tempfile.mkdtemp(prefix="coxauto_")
        try:
            shutil.copytree(os.path.join(REPO, "coxeter"), os.path.join(tmp, "coxeter"))
            try:
                if not apply_mutant(m, tmp):
                    continue
            except Exception as e:
                m["others"] = {"error": repr(e)[:100]}
                continue
            m2 = dict(m, props=[p for p in allp if p not in m["props"]])
            m["others"] = run_checks(m2, tmp)
        finally:
            shutil.rmtree(tmp, ignore_errors=True)
        got = [p for p, (v, _) in m["others"].items() if v == "caught"]
        print(f"{'caught-by-' + got[0] if got else 'MISSED-BY-ALL':16s} {m['module'].split('.')[-1]}:{m['qual']}:{m['line']} {m['desc']}  suite: {m.get('suite', '')[:120]}", flush=True)
        with open(a.out, "w") as f:
            json.dump(results, f, indent=1)


def main():
    ap = argparse.ArgumentParser()
    ap.add_argument("--per-func", type=int, default=2)
    ap.add_argument("--seed", type=int, default=0)
    ap.add_argument("--only-prop", default=None)
    ap.add_argument("--limit", type=int, default=None)
    ap.add_argument("--no-suite", action="store_true")
    ap.add_argument("--retriage", action="store_true", help="run every other check on the mutants no anchored check reported")
    ap.add_argument("--survivors-only", action="store_true", help="retriage only mutants the repository's tests pass")
    ap.add_argument("--out", default=os.path.join(HERE, "tools", "mutants", "auto_results.json"))
    a = ap.parse_args()
    rng = random.Random(a.seed)
    if a.retriage:
        return retriage(a)
    muts = enumerate_mutants(a.per_func, rng, a.only_prop)
    rng.shuffle(muts)
    if a.limit:
        muts = muts[:a.limit]
    print(f"{len(muts)} mutants over {len({(m['module'], m['qual']) for m in muts})} anchored functions", flush=True)
    global REPO
    base = tempfile.mkdtemp(prefix="coxauto_base_")
    if os.path.isdir(os.path.join(REPO, ".git")):
        # the committed tree: /repo's working tree may carry a seeded change while tools/run_seeded.sh runs
        subprocess.run(f"git -C {REPO} archive HEAD | tar -x -C {base}", shell=True, check=True)
    else:
        shutil.copytree(os.path.join(REPO, "coxeter"), os.path.join(base, "coxeter"))
        shutil.copytree(os.path.join(REPO, "tests"), os.path.join(base, "tests"))
        for f in ("pyproject.toml", "setup.cfg", "conftest.py", "pytest.ini", "tox.ini"):
            if os.path.exists(os.path.join(REPO, f)):
                shutil.copy(os.path.join(REPO, f), base)
    REPO = base          # /repo may be patched (seeded changes) while the campaign runs
    import atexit
    atexit.register(shutil.rmtree, base, ignore_errors=True)
    results = []
    if os.path.exists(a.out):
        results = json.load(open(a.out))
    done = {(r["module"], r["qual"], r["desc"], r["line"]) for r in results}
    for m in muts:
        if (m["module"], m["qual"], m["desc"], m["line"]) in done:
            continue
        tmp = tempfile.mkdtemp(prefix="coxauto_")
        t0 = time.time()
        try:
            shutil.copytree(os.path.join(REPO, "coxeter"), os.path.join(tmp, "coxeter"))
            if not apply_mutant(m, tmp):
                continue
            r = subprocess.run([PY, "-c", "import coxeter, coxeter.families, coxeter.shapes"], env=dict(os.environ, PYTHONPATH=tmp),
                               capture_output=True, text=True)
            if r.returncode != 0:
                m["outcome"] = "does-not-import"
            else:
                res = run_checks(m, tmp)
                m["checks"] = res
                vs = [v for v, _ in res.values()]
                if "caught" in vs:
                    m["outcome"] = "caught"
                elif "inconclusive" in vs or "check-error" in vs or "timeout" in vs:
                    m["outcome"] = "noticed-inconclusive"
                else:
                    m["outcome"] = "MISSED"
                if m["outcome"] != "caught" and not a.no_suite:
                    m["suite"] = run_suite(tmp)
        finally:
            shutil.rmtree(tmp, ignore_errors=True)
        m["wall"] = round(time.time() - t0, 1)
        print(f"{m['outcome']:22s} {m['module'].split('.')[-1]}:{m['qual']}:{m['line']} {m['desc']}  {m.get('checks', '')} "
              f"{('suite: ' + m['suite']) if 'suite' in m else ''}"[:400], flush=True)
        results.append(m)
        with open(a.out, "w") as f:
            json.dump(results, f, indent=1)
    c = {}
    for r in results:
        c[r["outcome"]] = c.get(r["outcome"], 0) + 1
    print("summary:", c)


if __name__ == "__main__":
    main()
